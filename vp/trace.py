"""Collect the guarded in-tree trace (emd/_verif.py, EMD_VERIF_TRACE) around a call."""
import os
import json
import glob
import shutil
import tempfile

import numpy as np


class Trace:
    """with Trace() as t: emd call ...; t.records -> list of dicts (arrays loaded), all processes."""

    def __init__(self):
        self.records = []
        self.dir = None

    def __enter__(self):
        self.dir = tempfile.mkdtemp(prefix='emdtrace-', dir='/dev/shm' if os.path.isdir('/dev/shm') else None)
        os.environ['EMD_VERIF_TRACE'] = self.dir
        return self

    def __exit__(self, *exc):
        os.environ.pop('EMD_VERIF_TRACE', None)
        try:
            for f in sorted(glob.glob(os.path.join(self.dir, '*.jsonl'))):
                for line in open(f):
                    line = line.strip()
                    if not line:
                        continue
                    rec = json.loads(line)
                    for k, v in list(rec.items()):
                        if isinstance(v, dict) and '__npy__' in v:
                            rec[k] = np.load(os.path.join(self.dir, v['__npy__']))
                    self.records.append(rec)
        finally:
            shutil.rmtree(self.dir, ignore_errors=True)
        return False

    def kind(self, k):
        return [r for r in self.records if r['kind'] == k]

    def pids(self, k=None):
        return sorted({r['pid'] for r in self.records if k is None or r['kind'] == k})
