"""C02 - sifting commutes with rescaling, sign flip and time reversal."""
import numpy as np
from hypothesis import strategies as st

from ..core import Clause, Violation, Discard
from .. import gens, refmodel

RULE = ("Cases: order-one signals (all families, 6..256 samples) x stop rule x step x interpolator x pad width 1..5 x parabolic refinement on/off x magnitude padding rule {default, mean, median, edge, symmetric} (one options dictionary object per case, shared by all calls), "
        "transformed by (dyadic) c = +-2^k, |k|<=8 - asserted bit for bit on every case for get_next_imf and for "
        "sift(c*x, sift_thresh=|c|*t); (real) c real with 1e-3<=|c|<=1e3 and (reverse) x[::-1] - asserted to 1e-6 "
        "relative on the prefix of IMFs whose extraction the reference model shows well conditioned (stop metric > "
        "1e-6 from its threshold, no adjacent iterate samples closer than 1e-7); (mask) mask_sift with mask_amp_mode "
        "in {ratio_sig, ratio_imf}, explicit float/list mask frequencies and 'zc', nprocesses 1..3, bit for bit for c=2^k>0, with "
        "tolerance and guard for real c>0 and (even nphases) c<0 (1e-6; between 1e-9 and 1e-6 only if the reference shows that much amplification of a re-rounding). Non-trivial: >=1 compared IMF that needed >=2 "
        "iterations, or >=2 compared columns.")
ASSUMPTIONS = ["sift_thresh is an absolute threshold by documentation, so it is scaled with |c|",
               "relations 'to within rounding' are only asserted on the well-conditioned prefix (guard band); "
               "a defect that shows exclusively on ill-conditioned inputs is not detected"]


@st.composite
def base_case(draw, max_n=256):
    sig = draw(gens.sift_signal(max_n))
    sm = draw(st.sampled_from(['sd', 'sd', 'rilling', 'fixed']))
    opts = {'stop_method': sm, 'env_step_size': draw(st.sampled_from([1, 1, 0.75, 0.5, 1 / 3]))}
    if sm == 'sd':
        opts['sd_thresh'] = draw(st.sampled_from([0.5, 0.2, 0.1, 0.05, 0.02]))
    elif sm == 'rilling':
        opts['rilling_thresh'] = draw(st.sampled_from([(0.05, 0.5, 0.05), (0.1, 0.8, 0.1), (0.2, 0.9, 0.2)]))
    else:
        opts['max_iters'] = draw(st.integers(1, 20))
    return {'sig': sig, 'opts': opts, 'interp': draw(st.sampled_from(['splrep', 'pchip', 'mono_pchip'])),
            'pad': draw(st.integers(1, 5)), 'par': draw(st.sampled_from([False, False, False, True])),
            'magpad': draw(st.sampled_from([None, None, None, 0, 1, 2, 3])), 'cap': draw(st.sampled_from([None, None, 2, 4]))}


# magnitude padding rules that are odd and homogeneous (pad(-c*m) == -c*pad(m)), so the relations still have to hold with them
# ('maximum' / 'minimum' are not: the same rule serves peaks and troughs)
MAGPADS = [{'mode': 'mean', 'stat_length': 3}, {'mode': 'median', 'stat_length': 3}, {'mode': 'edge'}, {'mode': 'symmetric'}]


def xopts(case):
    """The extrema options of a case - ONE dictionary object per case, handed to every call the oracle makes (to the
    extraction of x and of its transform alike), as a caller holding one options object would."""
    if '_xo' not in case:
        xo = {'pad_width': case['pad']}
        if case.get('par'):
            xo['parabolic_extrema'] = True
        if case.get('magpad') is not None:
            xo['mag_pad_opts'] = dict(MAGPADS[case['magpad']])
        case['_xo'] = xo
    return case['_xo']


def tiered(fn):
    return lambda tier: fn(100 if tier == 'quick' else 256)


@st.composite
def dyadic_case(draw, max_n=256):
    c = draw(base_case(max_n))
    c['c'] = draw(st.sampled_from([1.0, -1.0])) * 2.0 ** draw(st.integers(-8, 8))
    en = draw(st.sampled_from([None, None, None, 30, 50]))
    if en is not None:
        c['opts'] = dict(c['opts'], energy_thresh=en)       # the energy criterion is a ratio (dB): scale free
    if c['sig'].get('dtype') in ('f2', 'f4', 'i2') and draw(st.booleans()):
        # narrow storage: large factors (squares beyond the range of the narrow type) and the SD rule, whose metric squares
        c['c'] = draw(st.sampled_from([1.0, -1.0])) * 2.0 ** draw(st.integers(6, 8))
        c['opts'] = {'stop_method': 'sd', 'sd_thresh': draw(st.sampled_from([0.05, 0.1, 0.2])), 'env_step_size': 1}
    return c


@st.composite
def real_case(draw, max_n=256):
    c = draw(base_case(max_n))
    c['c'] = draw(st.sampled_from([1.0, -1.0])) * 10 ** draw(st.floats(-3, 3))
    return c


def run_imf(emd, x, case, sig):
    try:
        imf, flag = emd.sift.get_next_imf(gens.arg(x)[:, None], envelope_opts={'interp_method': case['interp']},
                                          extrema_opts=xopts(case), **case['opts'])
        return np.asarray(imf)[:, 0], bool(flag)
    except emd.support.EMDSiftCovergeError:
        return None, None
    except Exception as e:
        raise Violation('C02/%s/get_next_imf-raises/%s' % (sig, type(e).__name__), repr(e))


def run_sift(emd, x, case, thresh, sig):
    # records longer than 100 samples are decomposed to 8 components only (PCHIP sifts of long noisy records run to 100+
    # components of up to 1000 iterations each); the relations hold for capped runs just the same
    cap = case.get('cap') or (None if x.size <= 100 else 8)
    try:
        return np.asarray(emd.sift.sift(gens.arg(x), sift_thresh=thresh, max_imfs=cap, imf_opts=dict(case['opts']),
                                        envelope_opts={'interp_method': case['interp']},
                                        extrema_opts=xopts(case)))
    except emd.support.EMDSiftCovergeError:
        return None
    except Exception as e:
        raise Violation('C02/%s/sift-raises/%s' % (sig, type(e).__name__), repr(e))


def oracle_dyadic(case, rec):
    import emd
    x = gens.sig_of(case['sig'])
    c = case['c']
    kind = 'negative' if c < 0 else 'positive'
    a, fa = run_imf(emd, x, case, 'dyadic')
    xf = x.astype(float)          # c*x is formed exactly in float64 whatever the storage dtype of x
    b, fb = run_imf(emd, c * xf, case, 'dyadic')
    if (a is None) != (b is None):
        raise Violation('C02/dyadic/get_next_imf/convergence-differs/' + kind, 'c=%r' % c)
    nt = False
    if a is not None:
        if fa != fb:
            raise Violation('C02/dyadic/get_next_imf/flag-differs/' + kind, 'c=%r' % c)
        if not np.array_equal(b, c * a):
            raise Violation('C02/dyadic/get_next_imf/not-bit-exact/%s/%s' % (kind, case['opts']['stop_method']),
                            'c=%r max dev %.3g' % (c, np.abs(b - c * a).max() / abs(c)))
        nt = not np.array_equal(a, x)
    t = 1e-8
    A = run_sift(emd, x, case, t, 'dyadic')
    B = run_sift(emd, c * xf, case, abs(c) * t, 'dyadic')
    if (A is None) != (B is None):
        raise Violation('C02/dyadic/sift/convergence-differs/' + kind, 'c=%r' % c)
    if A is not None:
        if A.shape != B.shape:
            raise Violation('C02/dyadic/sift/column-count-differs/' + kind, 'c=%r: %r vs %r' % (c, A.shape, B.shape))
        if not np.array_equal(B, c * A):
            raise Violation('C02/dyadic/sift/not-bit-exact/%s/%s' % (kind, case['opts']['stop_method']),
                            'c=%r max dev %.3g' % (c, np.abs(B - c * A).max() / abs(c)))
        nt = nt or A.shape[1] >= 2
        rec.cls('K=%s' % (A.shape[1] if A.shape[1] < 5 else '5+'))
        if x.dtype != np.float64:
            # the scaled signal stored in the same narrow dtype, when that is exact (no overflow / underflow of the values)
            with np.errstate(over='ignore'):
                narrow = (c * xf).astype(x.dtype)
            if np.array_equal(narrow.astype(float), c * xf):
                Bn = run_sift(emd, narrow, case, abs(c) * t, 'dyadic')
                if Bn is None or Bn.shape != B.shape or not np.array_equal(Bn, B):
                    raise Violation('C02/dyadic/sift/scaled-narrow-dtype-input-differs/%s' % x.dtype,
                                    'c=%r: the same values stored as %s and as float64 decompose differently' % (c, x.dtype))
                rec.cls('scaled input also in ' + str(x.dtype))
    rec.cls(kind)
    rec.cls('stop=' + case['opts']['stop_method'])
    return nt


def compare_prefix(rec, sig, A, B, x, case, transform):
    """A = sift(x); B = transform-corrected sift of the transformed input. Compare the well-conditioned prefix."""
    eo = {'interp_method': case['interp']}
    xo = xopts(case)
    good = refmodel.conditioned_layers(x, A, case['opts'], eo, xo)
    rec.cls('conditioned-prefix=%s/%s' % ('all' if good >= min(A.shape[1], 12) else good, 'K'))
    if good == 0:
        raise Discard('first IMF ill-conditioned (stop metric within 1e-6 of threshold or adjacent samples within 1e-7)')
    if B.shape[1] < good:
        raise Violation('C02/%s/sift/fewer-columns' % sig, '%d columns, %d well-conditioned expected' % (B.shape[1], good))
    # the last well-conditioned layer may legitimately be the one at which the sift_thresh cut differs: compare values only
    scale = np.abs(x).max() or 1.0
    dev = np.abs(A[:, :good] - B[:, :good]).max() / scale
    rec.cls('dev<%s' % ('1e-12' if dev < 1e-12 else '1e-9' if dev < 1e-9 else '1e-6' if dev < 1e-6 else 'big'))
    if dev > 1e-6:
        j = int(np.argmax(np.abs(A[:, :good] - B[:, :good]).max(axis=0)))
        raise Violation('C02/%s/sift/prefix-differs/%s' % (sig, case['opts']['stop_method']),
                        'rel dev %.3g in column %d of %d compared (%s)' % (dev, j, good, transform))
    if dev > 1e-9:
        # far above double-precision rounding unless the extraction amplifies it: measure the amplification in the reference
        # (layer inputs times 1 + 2^-30) and accept only what a thousand such re-roundings could explain
        f = 1.0 + 2.0 ** -30
        sens = 0.0
        xf = np.asarray(x, dtype=float)
        for j in range(good):
            res = xf - A[:, :j].sum(axis=1)
            r1 = refmodel.ref_extract(res, envelope_opts=eo, extrema_opts=xo, hard_cap=1200, **case['opts'])
            r2 = refmodel.ref_extract(res * f, envelope_opts=eo, extrema_opts=xo, hard_cap=1200, **case['opts'])
            if r1.imf is None or r2.imf is None:
                sens = np.inf
                break
            sens = max(sens, float(np.abs(r2.imf / f - r1.imf).max() / scale))
        if dev > 1000 * sens + 1e-12:
            raise Violation('C02/%s/sift/prefix-differs-beyond-double-precision-rounding/%s' % (sig, case['opts']['stop_method']),
                            'rel dev %.3g over %d columns (%s); re-rounding the inputs moves the reference by %.3g' % (dev, good, transform, sens))
        rec.cls('1e-9<dev<1e-6 explained by measured amplification')
    return good


def oracle_real(case, rec):
    import emd
    x = gens.sig_of(case['sig'])
    c = case['c']
    t = 1e-8
    A = run_sift(emd, x, case, t, 'real')
    B = run_sift(emd, c * x.astype(float), case, abs(c) * t, 'real')
    if A is None or B is None:
        raise Discard('convergence error (limit decisions are discontinuous)')
    good = compare_prefix(rec, 'real', A, B / c, x, case, 'c=%r' % c)
    # the single extraction as well (its first layer is well conditioned, or compare_prefix would have discarded)
    a, fa = run_imf(emd, x, case, 'real')
    b, fb = run_imf(emd, c * x.astype(float), case, 'real')
    if a is not None and b is not None:
        dev = np.abs(a - b / c).max() / (np.abs(x).max() or 1.0)
        if dev > 1e-6:
            raise Violation('C02/real/get_next_imf/differs/' + case['opts']['stop_method'], 'c=%r rel dev %.3g' % (c, dev))
        if fa != fb:
            raise Violation('C02/real/get_next_imf/flag-differs', 'c=%r' % c)
    rec.cls('negative' if c < 0 else 'positive')
    return good >= 2 or not np.array_equal(A[:, 0], x)


def oracle_reverse(case, rec):
    import emd
    x = gens.sig_of(case['sig'])
    t = 1e-8
    A = run_sift(emd, x, case, t, 'reverse')
    B = run_sift(emd, x[::-1].copy(), case, t, 'reverse')
    if A is None or B is None:
        raise Discard('convergence error (limit decisions are discontinuous)')
    good = compare_prefix(rec, 'reverse', A, B[::-1], x, case, 'time reversal')
    # single extraction as well
    a, fa = run_imf(emd, x, case, 'reverse')
    b, fb = run_imf(emd, x[::-1].copy(), case, 'reverse')
    if a is not None and b is not None:
        if np.abs(a - b[::-1]).max() > 1e-6 * np.abs(x).max():
            raise Violation('C02/reverse/get_next_imf/differs', 'rel dev %.3g' % (np.abs(a - b[::-1]).max() / np.abs(x).max()))
        if fa != fb:
            raise Violation('C02/reverse/get_next_imf/flag-differs', '')
    return good >= 2 or not np.array_equal(A[:, 0], x)


# ----------------------------------------------------------------------------
# masked sift

@st.composite
def mask_case(draw, dyadic):
    n = draw(st.sampled_from([64, 100, 128, 200, 256]))
    sig = {'family': draw(st.sampled_from(['tones', 'amfm', 'noise', 'walk'])), 'n': n,
           'k': draw(st.integers(0, 2**32 - 1)), 'p1': draw(st.floats(0, 1)), 'p2': draw(st.floats(0, 1))}
    freqs = draw(st.sampled_from(['zc', 0.2, 0.11, 'list']))
    if freqs == 'list':
        freqs = [0.25, 0.1, 0.04, 0.015][:draw(st.integers(2, 4))]
    nph = draw(st.sampled_from([1, 2, 3, 4, 4, 6]))
    if dyadic:
        c = 2.0 ** draw(st.integers(-8, 8))
    else:
        c = 10 ** draw(st.floats(-3, 3))
        if nph % 2 == 0 and draw(st.booleans()):
            c = -c
    amp = draw(st.sampled_from([1, 0.5, 2.0, 'array', 'array']))
    if amp == 'array':
        amp = np.array([1.0, 0.5, 2.0, 1.5, 0.75])
    return {'sig': sig, 'mode': draw(st.sampled_from(['ratio_sig', 'ratio_imf'])), 'mask_amp': amp,
            'freqs': freqs, 'nphases': nph, 'max_imfs': draw(st.integers(2, 4)), 'c': c, 'nproc': draw(st.sampled_from([1, 1, 2, 3])),
            'opts': {'stop_method': draw(st.sampled_from(['sd', 'fixed'])), 'max_iters': draw(st.sampled_from([3, 8, 1000]))}}


def run_mask(emd, x, case, thresh):
    opts = dict(case['opts'])
    if opts['stop_method'] == 'fixed' and opts['max_iters'] > 20:
        opts['max_iters'] = 5
    if opts['stop_method'] == 'sd':
        opts['max_iters'] = 1000
    try:
        return np.asarray(emd.sift.mask_sift(x.copy(), mask_amp=case['mask_amp'], mask_amp_mode=case['mode'],
                                             mask_freqs=case['freqs'], nphases=case['nphases'], max_imfs=case['max_imfs'],
                                             sift_thresh=thresh, imf_opts=opts, nprocesses=case.get('nproc', 1))), opts
    except emd.support.EMDSiftCovergeError:
        return None, opts
    except Exception as e:
        raise Violation('C02/mask/mask_sift-raises/' + type(e).__name__, repr(e))


def oracle_mask(case, rec):
    import emd
    x = gens.sig_of(case['sig'])
    c = case['c']
    t = 1e-8
    A, opts = run_mask(emd, x, case, t)
    B, _ = run_mask(emd, c * x, case, abs(c) * t)
    if A is None or B is None:
        raise Discard('convergence error')
    dy = (np.log2(abs(c)) % 1 == 0) and c > 0
    rec.cls('mode=' + case['mode'])
    rec.cls('amp=' + ('array (one object for both calls)' if isinstance(case['mask_amp'], np.ndarray) else 'scalar'))
    rec.cls('freqs=' + (case['freqs'] if isinstance(case['freqs'], str) else 'list' if isinstance(case['freqs'], list) else 'float'))
    if dy:
        if A.shape != B.shape or not np.array_equal(B, c * A):
            raise Violation('C02/mask/dyadic/not-bit-exact/' + case['mode'], 'c=%r shapes %r %r' % (c, A.shape, B.shape))
        return A.shape[1] >= 2
    # real / negative factor: guard band on every masked extraction of the compared prefix
    K = min(A.shape[1], B.shape[1])
    n = x.size
    tt = np.arange(n)
    good = 0
    for j in range(K):
        res = x - A[:, :j].sum(axis=1)
        sd = x.std() if (case['mode'] == 'ratio_sig' or j == 0) else A[:, j - 1].std()
        amp = (case['mask_amp'][j] if isinstance(case['mask_amp'], np.ndarray) else case['mask_amp']) * sd
        if isinstance(case['freqs'], list):
            z = case['freqs'][j]
        elif isinstance(case['freqs'], float):
            z = case['freqs'] / 2 ** j
        else:
            break   # 'zc': frequency comes from a zero-crossing count (discontinuous) - compare only exact case above
        ok = True
        for p in range(case['nphases']):
            m = amp * np.cos(2 * np.pi * z * tt + 2 * np.pi * p / case['nphases'])
            r = refmodel.ref_extract(res + m, hard_cap=1200, **opts)
            if r.kind == 'error' or r.note or r.margin_stop <= 1e-6 or r.margin_tie <= 1e-7:
                ok = False
                break
        if not ok:
            break
        good += 1
    if good == 0:
        raise Discard('first masked IMF ill-conditioned or zero-crossing mask frequency with a non-dyadic factor')
    dev = np.abs(A[:, :good] - B[:, :good] / c).max() / np.abs(x).max()
    if dev > 1e-6:
        raise Violation('C02/mask/real/prefix-differs/%s/%s' % (case['mode'], 'negative' if c < 0 else 'positive'),
                        'c=%r rel dev %.3g over %d columns' % (c, dev, good))
    if dev > 1e-9:
        # between 1e-9 and 1e-6: far above double-precision rounding unless the extraction amplifies it. The amplification is
        # measured in the reference: the same masked extractions of the layers' inputs times (1 + 2^-30). A deviation more
        # than a thousand times what that re-rounding does is not rounding of the arithmetic the routine documents.
        f = 1.0 + 2.0 ** -30
        sens = 0.0
        for j in range(good):
            res = x - A[:, :j].sum(axis=1)
            sd = x.std() if (case['mode'] == 'ratio_sig' or j == 0) else A[:, j - 1].std()
            amp = (case['mask_amp'][j] if isinstance(case['mask_amp'], np.ndarray) else case['mask_amp']) * sd
            z = case['freqs'][j] if isinstance(case['freqs'], list) else case['freqs'] / 2 ** j
            outs = []
            for g in (1.0, f):
                acc = 0.0
                for p in range(case['nphases']):
                    m = g * amp * np.cos(2 * np.pi * z * tt + 2 * np.pi * p / case['nphases'])
                    r = refmodel.ref_extract(g * res + m, hard_cap=1200, **opts)
                    acc = acc + (r.imf - m)
                outs.append(acc / case['nphases'] / g)
            sens = max(sens, float(np.abs(outs[0] - outs[1]).max() / np.abs(x).max()))
        if dev > 1000 * sens + 1e-12:
            raise Violation('C02/mask/real/prefix-differs-beyond-double-precision-rounding/%s/%s' % (
                case['mode'], 'nprocesses>1' if case.get('nproc', 1) > 1 else 'nprocesses=1'),
                'c=%r rel dev %.3g over %d columns; re-rounding the inputs moves the reference by %.3g' % (c, dev, good, sens))
        rec.cls('1e-9<dev<1e-6 explained by measured amplification')
    rec.cls('nprocesses=%d' % case.get('nproc', 1))
    rec.cls('negative' if c < 0 else 'positive')
    return good >= 2


CLAUSES = [
    Clause('C02.dyadic', oracle_dyadic, strategy=tiered(dyadic_case), quick=1600, thorough=30000, shards=(16, 16),
           nt_rule='an IMF differing from the input or >= 2 columns'),
    Clause('C02.real', oracle_real, strategy=tiered(real_case), quick=800, thorough=20000, shards=(16, 16),
           nt_rule='>= 2 compared columns or a first IMF differing from the input'),
    Clause('C02.reverse', oracle_reverse, strategy=tiered(base_case), quick=800, thorough=20000, shards=(16, 16),
           nt_rule='>= 2 compared columns or a first IMF differing from the input'),
    Clause('C02.mask.dyadic', oracle_mask, strategy=mask_case(True), quick=160, thorough=4000, shards=(8, 16),
           nt_rule='>= 2 columns'),
    Clause('C02.mask.real', oracle_mask, strategy=mask_case(False), quick=160, thorough=4000, shards=(8, 16),
           nt_rule='>= 2 compared columns'),
]
