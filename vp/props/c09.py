"""C09 - instantaneous phase / frequency / amplitude are consistent and accurate."""
import numpy as np
from hypothesis import strategies as st

from ..core import Clause, Violation, Discard

TWO_PI = 2 * np.pi
METHODS = ['hilbert', 'nht', 'quad']
RATES = [64.0, 128.0, 256.0, 1000.0, 4000.0]

RULE = ("Cases: (consistency) methods {hilbert,nht,quad} x sample rates {64..4000} x smooth_phase in {default, 3, 31, None, 0} x smooth in-band AM-FM inputs with "
        "1-3 columns; (sinusoid) pure cosines with >=6 cycles per record, f <= sr/12, amplitude over 3 decades, start "
        "phase in [0,2pi); (lattice, enumerated) cosines with a whole number P of samples per cycle (12..60 quick, 12..240 thorough) and peaks on samples - for odd P every trough lies between two exactly equal samples - x 4 shifts x 3 amplitudes x methods, checked pointwise (quad: 10% IF, 2% IA, 0.05 rad); (storage) AM-FM IMF sets rounded to integers and stored as int64 / int32 / int16 / float32 vs the same values as float64 (1e-9, float32: 2e-3); (roundtrip) frequency profiles {constant, ramp, sinusoidally modulated, random smooth} in 1-3 "
        "columns through phase_from_freq -> freq_from_phase; (scale) x -> c*x for c=2^k (|k|<=8 and |k| in {30,40,50}) and real c in "
        "[1e-3,1e3], plus amplitude_normalise sign/scale invariance; (stack) 3-D [samples x imfs x imfs2] input - C-contiguous, column-major, an axis-swapped view or a strided view - vs its 2-D slices; (reuse) one array object filled with two IMF sets in turn; (columns) 2-4 column sets, optionally with one non-oscillating column (constant / ramp / zero / single bump) and in C / column-major / strided layout, vs each column alone. Oracle: shapes; 0<=IP<=2pi (exact 2pi counted); "
        "IF == sr*gradient(unwrap(IP))/2pi (1e-6 rel); interior-half medians |IF-f|/f, |IA-A|/A, circular |IP-truth| "
        "within calibrated tolerances (hilbert/nht also pointwise); roundtrip[i] == (f[i]+f[i+1])/2 inside, f[1], "
        "f[-1] at the ends (1e-9); IP/IF unchanged and IA scaled under c (1e-12 dyadic, 1e-6 real). Non-trivial: "
        "(sinusoid) >=6 cycles; (roundtrip) non-constant profile; (scale) c != 1; (consistency) >=2 columns or AM/FM depth > 0.")
ASSUMPTIONS = ["accuracy tolerances are empirical calibrations with >=3x head-room over 600 random sinusoids: "
               "hilbert/nht median 5% (IF), 6% (IA), 0.06 rad, pointwise 12% / 12% / 0.15 rad; quad median 25% / 6% / 0.1 rad",
               "in-band inputs keep |phase increment| < pi so the wrapped phase determines the unwrapped one"]


def amfm(n, sr, k, f_rel, am, fm, ncols):
    rng = np.random.default_rng(k)
    # every column must hold >= 5 cycles (an IMF with < 2 extrema has no envelope to normalise by)
    n = int(max(n, np.ceil(5 / (f_rel * 0.6 / 1.7 ** (ncols - 1)))))
    t = np.arange(n) / sr
    cols = []
    for c in range(ncols):
        f = f_rel * sr * (0.6 + 0.4 * rng.random()) / (1.7 ** c)
        fmod = f / (6 + 4 * rng.random())
        ph = TWO_PI * f * t + fm * np.sin(TWO_PI * fmod * t + rng.random()) + TWO_PI * rng.random()
        a = 1 + am * np.sin(TWO_PI * fmod * 0.7 * t + rng.random())
        cols.append(a * np.cos(ph))
    return np.array(cols).T


@st.composite
def amfm_case(draw):
    return {'method': draw(st.sampled_from(METHODS)), 'sr': draw(st.sampled_from(RATES)),
            'n': draw(st.integers(200, 1500)), 'k': draw(st.integers(0, 2**32 - 1)),
            'f_rel': draw(st.sampled_from([0.01, 0.02, 0.04, 0.07])),
            'am': draw(st.sampled_from([0.0, 0.2, 0.5])), 'fm': draw(st.sampled_from([0.0, 0.5, 1.5])),
            'ncols': draw(st.integers(1, 3)), 'smooth': draw(st.sampled_from(['default', 'default', 3, 31, None, 0]))}


SMOOTH = ['default', 'default', 3, 31, None, 0]


def ft(emd, x, sr, method, sig, smooth='default'):
    try:
        if smooth != 'default':
            return emd.spectra.frequency_transform(x, sr, method, smooth_phase=smooth)
        return emd.spectra.frequency_transform(x, sr, method)
    except Exception as e:
        raise Violation('C09/%s/raises/%s/%s' % (sig, type(e).__name__, method), repr(e))


def oracle_consistency(case, rec):
    import emd
    x = amfm(case['n'], case['sr'], case['k'], case['f_rel'], case['am'], case['fm'], case['ncols'])
    x0 = x.copy()
    IP, IF, IA = ft(emd, x, case['sr'], case['method'], 'consistency', case.get('smooth', 'default'))
    rec.cls('smooth_phase=%s' % (case.get('smooth', 'default'),))
    m = case['method']
    if not np.array_equal(x, x0):
        raise Violation('C09/consistency/input-modified/' + m, '')
    # the caller keeps the three arrays and transforms another IMF set of the same shape
    keep = [np.array(a) for a in (IP, IF, IA)]
    ft(emd, x0[::-1] * 0.5, case['sr'], m, 'consistency', case.get('smooth', 'default'))
    if not all(np.array_equal(np.asarray(a), k, equal_nan=True) for a, k in zip((IP, IF, IA), keep)):
        raise Violation('C09/consistency/earlier-result-changed-by-a-later-request/' + m, '')
    for name, arr in (('IP', IP), ('IF', IF), ('IA', IA)):
        if np.asarray(arr).shape != x.shape:
            raise Violation('C09/consistency/shape/%s/%s' % (name, m), '%r vs %r' % (np.asarray(arr).shape, x.shape))
        if not np.all(np.isfinite(arr)):
            raise Violation('C09/consistency/nonfinite/%s/%s' % (name, m), '')
    if IP.min() < 0 or IP.max() > TWO_PI:
        raise Violation('C09/consistency/phase-range/' + m, 'min %r max %r' % (IP.min(), IP.max()))
    if (IP == TWO_PI).any():
        rec.cls('phase_exactly_2pi')
    un = np.unwrap(IP, axis=0)
    if np.abs(np.diff(un, axis=0)).max() > 0.9 * np.pi:
        raise Discard('phase increment within 10% of pi: wrapped phase no longer determines the unwrapped one')
    exp = case['sr'] * np.gradient(un, axis=0) / TWO_PI
    err = np.abs(exp - IF).max() / (np.abs(IF).max() + 1e-30)
    if err > 1e-6:
        raise Violation('C09/consistency/IF-not-derivative-of-IP/' + m, 'rel err %r' % err)
    rec.cls('method=' + m)
    rec.cls('cols=%d' % case['ncols'])
    return case['ncols'] >= 2 or case['am'] > 0 or case['fm'] > 0


@st.composite
def sin_case(draw):
    sr = draw(st.sampled_from(RATES))
    frel = draw(st.floats(1 / 200, 1 / 12))
    ncyc = draw(st.floats(6, 40))
    return {'method': draw(st.sampled_from(METHODS)), 'sr': sr, 'frel': frel, 'ncyc': ncyc,
            'logA': draw(st.floats(-1.5, 1.5)), 'ph0': draw(st.floats(0, 6.28)),
            'ncols': draw(st.integers(1, 3)), 'smooth': draw(st.sampled_from(['default', 'default', 'default', 3, None, 0]))}


TOL = {'hilbert': (0.05, 0.12, 0.06, 0.12, 0.06, 0.15), 'nht': (0.05, 0.12, 0.06, 0.12, 0.06, 0.15),
       'quad': (0.25, None, 0.06, None, 0.10, None)}


def oracle_sin(case, rec):
    import emd
    sr, m = case['sr'], case['method']
    f = case['frel'] * sr
    n = int(min(max(np.ceil(case['ncyc'] * sr / f), 64), 6000))
    if f * n / sr < 6:
        raise Discard('fewer than 6 cycles in the record')
    A = 10 ** case['logA']
    t = np.arange(n) / sr
    cols = []
    truth = []
    for c in range(case['ncols']):
        fc, Ac, pc = f / (1 + 0.5 * c), A * (1 + c), case['ph0'] + c
        if fc * n / sr < 6:
            fc = f
        cols.append(Ac * np.cos(TWO_PI * fc * t + pc))
        truth.append((fc, Ac, np.mod(TWO_PI * fc * t + pc + np.pi / 2, TWO_PI)))
    x = np.array(cols).T
    IP, IF, IA = ft(emd, x, sr, m, 'sinusoid', case.get('smooth', 'default'))
    rec.cls('smooth_phase=%s' % (case.get('smooth', 'default'),))
    if IP.shape != x.shape or IF.shape != x.shape or IA.shape != x.shape:
        raise Violation('C09/sinusoid/shape/' + m, '')
    sl = slice(n // 4, 3 * n // 4)
    tol = TOL[m]
    worst = 0.0
    for c, (fc, Ac, tp) in enumerate(truth):
        eif = np.abs(IF[sl, c] - fc) / fc
        eia = np.abs(IA[sl, c] - Ac) / Ac
        eph = np.abs(np.angle(np.exp(1j * (IP[sl, c] - tp[sl]))))
        vals = (np.median(eif), eif.max(), np.median(eia), eia.max(), np.median(eph), eph.max())
        names = ('IF-median', 'IF-pointwise', 'IA-median', 'IA-pointwise', 'IP-median', 'IP-pointwise')
        for v, tl, nm in zip(vals, tol, names):
            if tl is None:
                continue
            worst = max(worst, v / tl)
            if not (v <= tl):
                raise Violation('C09/sinusoid/%s/%s' % (nm, m),
                                'err %.4g > %.4g (f=%.5g sr=%g A=%.4g n=%d col %d)' % (v, tl, fc, sr, Ac, n, c))
    rec.cls('method=' + m)
    rec.cls('tolratio<%s' % ('0.34' if worst < 0.34 else '0.67' if worst < 0.67 else '1'))
    return True


def lattice_cosine(P, ncyc, shift):
    """A cosine with exactly P samples per cycle and its peaks on samples; the second half of each cycle mirrors the first
    bit for bit, so for odd P every trough lies between two exactly equal samples (and for even P on a sample)."""
    c = np.cos(TWO_PI * np.arange(P) / P)
    for j in range(1, (P + 1) // 2):
        c[P - j] = c[j]
    return np.roll(np.tile(c, ncyc), shift)


LATTICE_TOL = {'hilbert': (0.12, 0.12, 0.15), 'nht': (0.12, 0.12, 0.15), 'quad': (0.10, 0.02, 0.05)}


def enum_lattice(tier):
    periods = list(range(12, 61)) if tier == 'quick' else list(range(12, 241))
    for P in periods:
        for shift in sorted({0, 1, P // 3, P // 2}):
            for m in METHODS:
                for logA in (0.0, -1.5, 1.5):
                    for sr, smooth in ((64.0, 'default'), (1000.0, None), (256.0, 3)):
                        yield {'P': P, 'shift': shift, 'method': m, 'logA': logA, 'sr': sr, 'smooth': smooth,
                               'ncyc': 8 + P % 5}


def oracle_lattice(case, rec):
    """Sample-aligned sinusoids (whole number of samples per cycle, peaks on samples): the interior estimates are checked
    pointwise for every method - for these inputs the quadrature method has no peak-location error to excuse it."""
    import emd
    P, m, sr = case['P'], case['method'], case['sr']
    A = 10 ** case['logA']
    x = A * lattice_cosine(P, case['ncyc'], case['shift'])
    n = x.size
    IP, IF, IA = ft(emd, x.copy(), sr, m, 'lattice', case['smooth'])
    if IP.shape != (n, 1) or IF.shape != (n, 1) or IA.shape != (n, 1):
        raise Violation('C09/lattice/shape/' + m, '')
    f = sr / P
    tp = np.mod(TWO_PI * (np.arange(n) - case['shift']) / P + np.pi / 2, TWO_PI)
    sl = slice(n // 4, 3 * n // 4)
    errs = (np.abs(IF[sl, 0] - f).max() / f, np.abs(IA[sl, 0] - A).max() / A,
            np.abs(np.angle(np.exp(1j * (IP[sl, 0] - tp[sl])))).max())
    for v, tl, nm in zip(errs, LATTICE_TOL[m], ('IF-pointwise', 'IA-pointwise', 'IP-pointwise')):
        if not (v <= tl):
            raise Violation('C09/lattice/%s/%s/%s' % (nm, m, 'odd-period' if P % 2 else 'even-period'),
                            'err %.4g > %.4g (P=%d shift=%d sr=%g A=%.4g n=%d)' % (v, tl, P, case['shift'], sr, A, n))
    rec.cls('method=' + m)
    rec.cls('odd-period' if P % 2 else 'even-period')
    return True


@st.composite
def storage_case(draw):
    d = draw(amfm_case())
    d['n'] = min(d['n'], 900)
    d['dtype'] = draw(st.sampled_from(['i8', 'i2', 'i4', 'f4']))
    d['gain'] = draw(st.sampled_from([100.0, 1000.0, 20000.0]))
    return d


def oracle_storage(case, rec):
    """IMFs stored as integers (ADC counts) or in single precision: the transform of the stored array must be the transform of
    the same values held as float64 - exactly for integer storage (the conversion is exact), to single precision for float32."""
    import emd
    x = amfm(case['n'], case['sr'], case['k'], case['f_rel'], case['am'], case['fm'], case['ncols'])
    x = np.round(x * case['gain'] / np.abs(x).max())
    dt = {'i8': np.int64, 'i4': np.int32, 'i2': np.int16, 'f4': np.float32}[case['dtype']]
    stored = x.astype(dt)
    if not np.array_equal(stored.astype(float), x):
        raise Discard('values not representable in the storage type')
    m = case['method']
    ref = ft(emd, x.copy(), case['sr'], m, 'storage', case.get('smooth', 'default'))
    got = ft(emd, stored.copy(), case['sr'], m, 'storage', case.get('smooth', 'default'))
    if not np.array_equal(stored.astype(float), x):
        raise Violation('C09/storage/input-modified/' + case['dtype'], '')
    tol = 2e-3 if case['dtype'] == 'f4' else 1e-9
    for name, a, b in zip(('IP', 'IF', 'IA'), got, ref):
        a, b = np.asarray(a, dtype=float), np.asarray(b, dtype=float)
        if a.shape != b.shape:
            raise Violation('C09/storage/shape/%s/%s' % (name, m), '%r vs %r' % (a.shape, b.shape))
        ok = np.isfinite(b)
        if name == 'IP':
            dev = np.abs(np.angle(np.exp(1j * (a[ok] - b[ok])))).max() if ok.any() else 0.0
        else:
            dev = (np.abs(a[ok] - b[ok]).max() / (np.abs(b[ok]).max() + 1e-300)) if ok.any() else 0.0
        if not (dev <= tol) or not np.array_equal(np.isfinite(a), ok):
            raise Violation('C09/storage/%s-depends-on-storage-dtype/%s/%s' % (name, m, 'integer' if case['dtype'][0] == 'i' else 'float32'),
                            'max deviation %.3g from the float64 result (stored as %s, gain %g)' % (dev, case['dtype'], case['gain']))
    rec.cls('method=' + m)
    rec.cls('dtype=' + case['dtype'])
    return True


@st.composite
def rt_case(draw):
    return {'kind': draw(st.sampled_from(['const', 'ramp', 'sinmod', 'smooth'])), 'n': draw(st.integers(3, 600)),
            'sr': draw(st.sampled_from(RATES)), 'k': draw(st.integers(0, 2**32 - 1)), 'ncols': draw(st.integers(0, 3)),
            'start': draw(st.sampled_from([-np.pi, 0.0, 1.0]))}


def oracle_rt(case, rec):
    import emd
    n, sr = case['n'], case['sr']
    rng = np.random.default_rng(case['k'])
    nc = max(case['ncols'], 1)
    t = np.arange(n) / n
    cols = []
    for c in range(nc):
        f0 = sr * (0.005 + 0.07 * rng.random())
        if case['kind'] == 'const':
            f = np.full(n, f0)
        elif case['kind'] == 'ramp':
            f = f0 * (1 + (rng.random() - 0.3) * t)
        elif case['kind'] == 'sinmod':
            f = f0 * (1 + 0.4 * np.sin(TWO_PI * (1 + 4 * rng.random()) * t + rng.random()))
        else:
            f = f0 * np.exp(0.3 * np.cumsum(rng.standard_normal(n)) / np.sqrt(n))
        cols.append(f)
    f = np.array(cols).T
    if case['ncols'] == 0:
        f = f[:, 0]
    f0 = f.copy()
    try:
        ph = emd.spectra.phase_from_freq(f, sr, phase_start=case['start'])
        back = np.asarray(emd.spectra.freq_from_phase(ph, sr))
    except Exception as e:
        raise Violation('C09/roundtrip/raises/' + type(e).__name__, repr(e))
    if not np.array_equal(f, f0):
        raise Violation('C09/roundtrip/input-modified', '')
    if back.shape != f.shape:
        raise Violation('C09/roundtrip/shape', '%r vs %r' % (back.shape, f.shape))
    exp = np.empty_like(f)
    exp[1:-1] = (f[1:-1] + f[2:]) / 2
    exp[0] = f[1]
    exp[-1] = f[-1]
    err = np.abs(back - exp).max() / np.abs(f).max()
    if err > 1e-9:
        raise Violation('C09/roundtrip/value/' + ('constant' if case['kind'] == 'const' else 'varying'), 'rel err %r' % err)
    if not np.isclose(np.asarray(ph).reshape(n, -1)[0], case['start'] + TWO_PI * f.reshape(n, -1)[0] / sr, rtol=1e-12, atol=1e-12).all():
        raise Violation('C09/roundtrip/phase-start', '')
    rec.cls('kind=' + case['kind'])
    return case['kind'] != 'const'


@st.composite
def scale_case(draw):
    d = draw(amfm_case())
    d['n'] = min(d['n'], 800)
    if draw(st.booleans()):
        # moderate factors, and factors that take an order-one IMF to 1e-9 .. 1e-15 or 1e+9 .. 1e+15 (nothing in the
        # transform may depend on an absolute amplitude)
        d['c'] = 2.0 ** draw(st.one_of(st.integers(-8, 8), st.sampled_from([-50, -40, -30, 30, 40, 50])))
        d['dyadic'] = True
    else:
        d['c'] = 10 ** draw(st.floats(-3, 3))
        d['dyadic'] = False
    return d


def oracle_scale(case, rec):
    import emd
    x = amfm(case['n'], case['sr'], case['k'], case['f_rel'], case['am'], case['fm'], case['ncols'])
    c, m = case['c'], case['method']
    tol = 1e-12 if case['dyadic'] else 1e-6
    kind = 'dyadic' if case['dyadic'] else 'real'
    IP, IF, IA = ft(emd, x.copy(), case['sr'], m, 'scale')
    IP2, IF2, IA2 = ft(emd, c * x, case['sr'], m, 'scale')
    dph = np.abs(np.angle(np.exp(1j * (IP2 - IP)))).max()
    if dph > max(tol, 1e-9):
        raise Violation('C09/scale/IP-changed/%s/%s' % (m, kind), 'c=%r max circular diff %r' % (c, dph))
    dif = np.abs(IF2 - IF).max() / np.abs(IF).max()
    if dif > max(tol, 1e-9):
        raise Violation('C09/scale/IF-changed/%s/%s' % (m, kind), 'c=%r rel diff %r' % (c, dif))
    dia = np.abs(IA2 - c * IA).max() / (c * np.abs(IA).max())
    if dia > max(tol, 1e-11):
        raise Violation('C09/scale/IA-not-scaled/%s/%s' % (m, kind), 'c=%r rel diff %r' % (c, dia))
    # amplitude normalisation: sign preserving, scale invariant
    try:
        nx = np.asarray(emd.utils.amplitude_normalise(x.copy()))
        nx2 = np.asarray(emd.utils.amplitude_normalise(c * x))
    except Exception as e:
        raise Violation('C09/amplitude_normalise/raises/' + type(e).__name__, repr(e))
    nz = x != 0
    if nx.shape != x.shape or not np.array_equal(np.sign(nx[nz]), np.sign(x[nz])):
        raise Violation('C09/amplitude_normalise/sign', '')
    if np.abs(nx2 - nx).max() > max(tol, 1e-9):
        raise Violation('C09/amplitude_normalise/scale-dependence/' + kind, 'c=%r diff %r' % (c, np.abs(nx2 - nx).max()))
    rec.cls('method=' + m)
    rec.cls(kind)
    return c != 1.0


@st.composite
def stack_case(draw):
    return {'method': draw(st.sampled_from(METHODS)), 'sr': draw(st.sampled_from(RATES)), 'n': draw(st.integers(300, 1200)),
            'k': draw(st.integers(0, 2**32 - 1)), 'm': draw(st.integers(1, 3)), 'kk': draw(st.sampled_from([1, 1, 2, 3, 4, 6])),
            'f_rel': draw(st.sampled_from([0.02, 0.04, 0.07])), 'am': draw(st.sampled_from([0.0, 0.3])),
            'fm': draw(st.sampled_from([0.0, 0.8])),
            'layout': draw(st.sampled_from(['C', 'C', 'F', 'swapped', 'strided']))}


def stack_layout(a, layout):
    """The same 3-D values in another memory layout: column-major (what scipy.io.loadmat returns), a swapaxes view of a
    C array stored [samples x imfs2 x imfs], or every second second-level IMF of a wider stack."""
    if layout == 'F':
        return np.asfortranarray(a)
    if layout == 'swapped':
        return np.ascontiguousarray(a.swapaxes(1, 2)).swapaxes(1, 2)
    if layout == 'strided':
        wide = np.zeros((a.shape[0], a.shape[1], 2 * a.shape[2]))
        wide[:, :, ::2] = a
        return wide[:, :, ::2]
    return a.copy()


def oracle_stack(case, rec):
    """3-D second-level input [samples x imfs x imfs2]: every IMF must be transformed independently of its neighbours,
    i.e. the result for the stack equals the result for each 2-D slice, and has the stack's shape."""
    import emd
    m, kk = case['m'], case['kk']
    cols = amfm(case['n'], case['sr'], case['k'], case['f_rel'], case['am'], case['fm'], 1)
    n = cols.shape[0]
    stack = np.zeros((n, m, kk))
    for i in range(m):
        for j in range(kk):
            stack[:, i, j] = amfm(n, case['sr'], case['k'] + 17 * i + j, case['f_rel'] * (0.6 + 0.4 * ((i + j) % 3) / 2),
                                  case['am'], case['fm'], 1)[:n, 0] * (1 + i + 0.5 * j)
    meth = case['method']
    given = stack_layout(stack, case.get('layout', 'C'))
    IP, IF, IA = ft(emd, given, case['sr'], meth, 'stack')
    if not np.array_equal(given, stack):
        raise Violation('C09/stack/input-modified/' + meth, '')
    rec.cls('layout=' + case.get('layout', 'C'))
    for name, arr in (('IP', IP), ('IF', IF), ('IA', IA)):
        if np.asarray(arr).shape != stack.shape:
            raise Violation('C09/stack/shape/%s/%s' % (name, meth), '%r vs %r' % (np.asarray(arr).shape, stack.shape))
    for j in range(kk):
        ip2, if2, ia2 = ft(emd, stack[:, :, j].copy(), case['sr'], meth, 'stack')
        dph = np.abs(np.angle(np.exp(1j * (IP[:, :, j] - ip2)))).max()
        dif = np.abs(IF[:, :, j] - if2).max() / (np.abs(if2).max() + 1e-30)
        dia = np.abs(IA[:, :, j] - ia2).max() / (np.abs(ia2).max() + 1e-30)
        if dph > 1e-9 or dif > 1e-9 or dia > 1e-9:
            raise Violation('C09/stack/imf-depends-on-its-neighbours/%s' % meth,
                            'second-level IMF %d of %d: phase %.3g, freq %.3g, amp %.3g relative to the 2-D result' % (j, kk, dph, dif, dia))
    rec.cls('method=' + meth)
    rec.cls('stack=%dx%d' % (m, kk))
    return True


@st.composite
def columns_case(draw):
    d = draw(amfm_case())
    d['ncols'] = draw(st.integers(2, 4))
    d['n'] = min(d['n'], 900)
    d['degenerate'] = draw(st.sampled_from(['none', 'constant', 'ramp', 'zero', 'bump']))
    d['where'] = draw(st.integers(0, 3))
    d['layout'] = draw(st.sampled_from(['C', 'F', 'strided']))
    return d


def oracle_columns(case, rec):
    """Every IMF column is transformed on its own: the result for column j of a set equals the result for that column
    alone - also when another column of the set has no oscillation at all (a residual: constant, ramp, single bump)."""
    import emd
    from .. import gens
    x = amfm(case['n'], case['sr'], case['k'], case['f_rel'], case['am'], case['fm'], case['ncols'])
    n = x.shape[0]
    dcol = None
    if case['degenerate'] != 'none':
        dcol = case['where'] % case['ncols']
        t = np.arange(n) / n
        x[:, dcol] = {'constant': np.full(n, 0.7), 'ramp': 2 * t - 0.3, 'zero': np.zeros(n),
                      'bump': np.exp(-0.5 * ((t - 0.5) / 0.1) ** 2)}[case['degenerate']]
    meth = case['method']
    import warnings
    with warnings.catch_warnings():
        warnings.simplefilter('ignore')
        IP, IF, IA = ft(emd, gens.relayout(x.copy(), case['layout']), case['sr'], meth, 'columns')
        for j in range(case['ncols']):
            if j == dcol:
                continue
            ip1, if1, ia1 = ft(emd, x[:, j:j + 1].copy(), case['sr'], meth, 'columns')
            dph = np.abs(np.angle(np.exp(1j * (IP[:, j] - ip1[:, 0])))).max()
            dif = np.abs(IF[:, j] - if1[:, 0]).max() / (np.abs(if1).max() + 1e-30)
            dia = np.abs(IA[:, j] - ia1[:, 0]).max() / (np.abs(ia1).max() + 1e-30)
            if not (dph <= 1e-9 and dif <= 1e-9 and dia <= 1e-9):
                what = 'amplitude' if not dia <= 1e-9 else 'phase/frequency'
                raise Violation('C09/columns/%s-depends-on-other-columns/%s' % (what, meth),
                                'column %d of %d (degenerate column: %r at %r, layout %s): phase %.3g freq %.3g amp %.3g' % (
                                    j, case['ncols'], case['degenerate'], dcol, case['layout'], dph, dif, dia))
    rec.cls('method=' + meth)
    rec.cls('degenerate=' + case['degenerate'])
    rec.cls('layout=' + case['layout'])
    return True


@st.composite
def reuse_case(draw):
    a = draw(amfm_case())
    b = draw(amfm_case())
    a['n'] = b['n'] = 600
    b['ncols'] = a['ncols']
    b['sr'] = a['sr']
    b['method'] = a['method']
    return {'a': a, 'b': b}


def oracle_reuse(case, rec):
    """The transform of a buffer must describe the buffer's *current* contents: fill one array object with IMF set A,
    transform, overwrite it in place with IMF set B, transform again - equal to the transform of a fresh copy of B."""
    import emd
    a, b = case['a'], case['b']
    xa = amfm(a['n'], a['sr'], a['k'], a['f_rel'], a['am'], a['fm'], a['ncols'])
    xb = amfm(b['n'], b['sr'], b['k'], b['f_rel'], b['am'], b['fm'], b['ncols'])
    n = min(xa.shape[0], xb.shape[0])
    xa, xb = xa[:n].copy(), xb[:n].copy()
    meth = a['method']
    buf = xa.copy()
    ft(emd, buf, a['sr'], meth, 'reuse')
    emd.utils.amplitude_normalise(buf)
    buf[...] = xb
    IP, IF, IA = ft(emd, buf, a['sr'], meth, 'reuse')
    nx = np.asarray(emd.utils.amplitude_normalise(buf))
    ip2, if2, ia2 = ft(emd, xb.copy(), a['sr'], meth, 'reuse')
    nx2 = np.asarray(emd.utils.amplitude_normalise(xb.copy()))
    if not (np.array_equal(IP, ip2, equal_nan=True) and np.array_equal(IF, if2, equal_nan=True) and np.array_equal(IA, ia2, equal_nan=True)):
        raise Violation('C09/reuse/transform-describes-earlier-contents-of-the-array/' + meth,
                        'max |IF - IF_fresh| = %.3g' % np.abs(IF - if2).max())
    if not np.array_equal(nx, nx2, equal_nan=True):
        raise Violation('C09/reuse/amplitude_normalise-describes-earlier-contents', '')
    rec.cls('method=' + meth)
    return True


CLAUSES = [
    Clause('C09.reuse', oracle_reuse, strategy=reuse_case(), quick=300, thorough=6000, shards=(4, 16),
           nt_rule='every evaluated pair of IMF sets'),
    Clause('C09.columns', oracle_columns, strategy=columns_case(), quick=600, thorough=12000, shards=(8, 16),
           nt_rule='every evaluated multi-column set'),
    Clause('C09.stack', oracle_stack, strategy=stack_case(), quick=240, thorough=6000, shards=(8, 16),
           nt_rule='every evaluated stack (>= 2 second-level IMFs)'),
    Clause('C09.consistency', oracle_consistency, strategy=amfm_case(), quick=1200, thorough=30000, shards=(4, 16),
           nt_rule='>=2 columns or non-zero AM/FM depth'),
    Clause('C09.sinusoid', oracle_sin, strategy=sin_case(), quick=1200, thorough=30000, shards=(4, 16),
           nt_rule='>=6 cycles in the record'),
    Clause('C09.lattice', oracle_lattice, enumerate=enum_lattice, quick=None, thorough=None, shards=(8, 16), exhaustive=True,
           nt_rule='every evaluated sample-aligned sinusoid'),
    Clause('C09.storage', oracle_storage, strategy=storage_case(), quick=600, thorough=12000, shards=(4, 16),
           nt_rule='every evaluated IMF set in integer / single-precision storage'),
    Clause('C09.roundtrip', oracle_rt, strategy=rt_case(), quick=2000, thorough=40000, shards=(2, 8),
           nt_rule='non-constant frequency profile'),
    Clause('C09.scale', oracle_scale, strategy=scale_case(), quick=800, thorough=20000, shards=(4, 16),
           nt_rule='scale factor != 1'),
]
