"""C19 - array inputs are layout-insensitive, validated and never modified."""
import copy

import numpy as np
from hypothesis import strategies as st

from ..core import Clause, Violation, Discard
from .. import gens

RULE = ("Cases: (object) one Cycles container handed to a drawn series of get_control_points / phase_align / get_cycle_stat calls in cycle and augmented mode, every result compared with the same call on a freshly built container; a catalogue of public numeric entry points x drawn signals (32..200 samples) x read-only / writable "
        "input arrays x option dictionaries reused across calls. (single) sift, mask_sift, ensemble_sift, "
        "complete_ensemble_sift, get_next_imf, get_next_imf_mask (each under 4 option sets incl. step sizes != 1, all stop rules, data-driven mask frequencies): layouts (n,), (n,1), (n,1,1) must give np.array_equal "
        "results, layouts (n,2), (1,n), (n,2,3) must raise; (vector) interp_envelope, get_padded_extrema, "
        "frequency_transform x3, amplitude_normalise, get_cycle_vector, Cycles, get_cycle_stat, phase_align, bin_by_phase, "
        "hilberthuang: vector vs single column (2-D vs trailing singleton for amplitude_normalise) must agree; (lengths) "
        "hilberthuang, hilberthuang_1d, holospectrum, get_cycle_vector+mask, get_cycle_stat, phase_align, bin_by_phase: "
        "mismatched first dimensions must raise; (options) sift variants and both second-layer sifts with caller-owned option "
        "dicts; (reuse) 24 routines called twice through the same array objects, the contents replaced in place in between - "
        "the second result must equal the result on fresh copies. Every call: inputs byte-identical afterwards (read-only inputs must be accepted), option dicts deepcopy-equal "
        "afterwards, a second identical call - made after the caller has overwritten the arrays returned by the first - returns identical output. Non-trivial: every (routine, layout) evaluation that "
        "compares >= 2 accepted layouts or must reject.")
ASSUMPTIONS = ["amplitude_normalise and hilberthuang_1d document 2-D input only: plain vectors are not demanded of them",
               "any exception type counts as rejection; returning a result does not"]


def arr(out):
    if isinstance(out, tuple):
        return [np.asarray(o, dtype=float) if o is not None else np.zeros(0) for o in out if not isinstance(o, (bool, np.bool_))]
    if out is None:
        return [np.zeros(0)]
    return [np.asarray(out, dtype=float)]


def same(a, b, squeeze=False):
    A, B = arr(a), arr(b)
    if len(A) != len(B):
        return False
    for x, y in zip(A, B):
        if squeeze:
            x, y = np.squeeze(x), np.squeeze(y)
        if x.shape != y.shape or not np.array_equal(x, y, equal_nan=True):
            return False
    return True


OPTS = dict(imf_opts={'stop_method': 'sd', 'sd_thresh': 0.2, 'env_step_size': 1},
            envelope_opts={'interp_method': 'splrep'},
            extrema_opts={'pad_width': 2, 'loc_pad_opts': {'mode': 'reflect', 'reflect_type': 'odd'},
                          'mag_pad_opts': {'mode': 'median', 'stat_length': 1}})
OPTSETS = [
    OPTS,
    dict(imf_opts={'stop_method': 'rilling', 'rilling_thresh': (0.1, 0.8, 0.1), 'env_step_size': 0.5},
         envelope_opts={'interp_method': 'pchip'}, extrema_opts={'pad_width': 3, 'parabolic_extrema': True}),
    dict(imf_opts={'stop_method': 'fixed', 'max_iters': 3, 'env_step_size': 1 / 3},
         envelope_opts={'interp_method': 'mono_pchip'},
         extrema_opts={'pad_width': 1, 'mag_pad_opts': {'mode': 'median', 'stat_length': 2}}),
    dict(imf_opts={'stop_method': 'sd', 'sd_thresh': 0.05, 'env_step_size': 0.75, 'energy_thresh': 60},
         envelope_opts={'interp_method': 'splrep'}, extrema_opts=None),
]


def single_routines(emd):
    S = emd.sift

    def seeded(f):
        def g(X, o):
            np.random.seed(99)
            return f(X, o)
        return g
    return {
        'sift': lambda X, o: S.sift(X, max_imfs=3, **o),
        'mask_sift': lambda X, o: S.mask_sift(X, max_imfs=3, mask_freqs=[0.3, 0.1, 0.03], **o),
        'mask_sift/zc': lambda X, o: S.mask_sift(X, max_imfs=3, mask_freqs='zc', **o),
        'mask_sift/if': lambda X, o: S.mask_sift(X, max_imfs=2, mask_freqs='if', mask_amp_mode='ratio_sig', **o),
        'ensemble_sift': seeded(lambda X, o: S.ensemble_sift(X, max_imfs=2, nensembles=2, **o)),
        'complete_ensemble_sift': seeded(lambda X, o: S.complete_ensemble_sift(X, max_imfs=2, nensembles=2, **o)),
        'get_next_imf': lambda X, o: S.get_next_imf(X, envelope_opts=o['envelope_opts'], extrema_opts=o['extrema_opts'], **o['imf_opts']),
        'get_next_imf_mask': lambda X, o: S.get_next_imf_mask(X, 0.2, 0.5, nphases=2, **o),
    }


def call_checked(name, f, arrays, opts, rec, readonly):
    """Call f(*arrays[, opts]) twice; check inputs/options untouched and determinism. Returns the output."""
    ins = [a.copy() for a in arrays]
    if readonly:
        for a in ins:
            a.setflags(write=False)
    before = [a.copy() for a in ins]
    o = copy.deepcopy(opts) if opts is not None else None
    o_before = copy.deepcopy(o)
    try:
        out = f(*ins, o) if o is not None else f(*ins)
    except ValueError as e:
        if 'read-only' in str(e):
            raise Violation('C19/%s/writes-into-input' % name, repr(e))
        raise
    for a, b in zip(ins, before):
        if a.shape != b.shape or a.tobytes() != b.tobytes():
            raise Violation('C19/%s/input-modified' % name, '')
    if o is not None and not deep_equal(o, o_before):
        raise Violation('C19/%s/option-dict-modified' % name, 'before %r after %r' % (o_before, o))
    # a caller may do what it likes with the arrays it was handed back: scribble over them, then repeat the call
    keep = copy.deepcopy(out)
    outs = [o_ for o_ in (out if isinstance(out, tuple) else (out,)) if isinstance(o_, np.ndarray)]
    for o_ in outs:
        if o_.flags.writeable and o_.dtype.kind in 'fiu' and not any(np.shares_memory(o_, a) for a in ins):
            o_ *= 3
            o_ += 1
    out2 = f(*ins, o) if o is not None else f(*ins)
    if not same(keep, out2):
        raise Violation('C19/%s/not-deterministic' % name, 'a repeated identical call (after the first result had been '
                        'overwritten by the caller) returned something else')
    return keep


def deep_equal(a, b):
    if isinstance(a, dict):
        return isinstance(b, dict) and a.keys() == b.keys() and all(deep_equal(a[k], b[k]) for k in a)
    if isinstance(a, (list, tuple)):
        return type(a) is type(b) and len(a) == len(b) and all(deep_equal(x, y) for x, y in zip(a, b))
    if isinstance(a, np.ndarray):
        return isinstance(b, np.ndarray) and a.shape == b.shape and np.array_equal(a, b)
    return a == b and type(a) is type(b)


@st.composite
def sig_case(draw, names):
    n = draw(st.sampled_from([32, 48, 64, 100, 128, 200]))
    sig = {'family': draw(st.sampled_from(['tones', 'amfm', 'noise', 'walk'])), 'n': n,
           'k': draw(st.integers(0, 2**32 - 1)), 'p1': draw(st.floats(0, 1)), 'p2': draw(st.floats(0, 1))}
    return {'routine': draw(st.sampled_from(names)), 'sig': sig, 'readonly': draw(st.booleans()),
            'optset': draw(st.integers(0, len(OPTSETS) - 1))}


SINGLE = ['sift', 'mask_sift', 'mask_sift/zc', 'mask_sift/if', 'ensemble_sift', 'complete_ensemble_sift', 'get_next_imf', 'get_next_imf_mask']


def oracle_single(case, rec):
    import emd
    x = gens.sig_of(case['sig'])
    n = x.size
    name = case['routine']
    f = single_routines(emd)[name]
    OPTS = OPTSETS[case.get('optset', 0)]
    outs = {}
    for lay, X in (('(n,)', x), ('(n,1)', x[:, None]), ('(n,1,1)', x[:, None, None])):
        try:
            outs[lay] = call_checked(name, f, [X], OPTS, rec, case['readonly'])
        except Violation:
            raise
        except emd.support.EMDSiftCovergeError:
            raise Discard('convergence error')
        except Exception as e:
            raise Violation('C19/%s/rejects-accepted-layout/%s' % (name, lay), repr(e))
    for lay in ('(n,1)', '(n,1,1)'):
        if not same(outs['(n,)'], outs[lay]):
            raise Violation('C19/%s/layout-changes-result/%s' % (name, lay), '')
    for lay, X in (('(n,2)', np.c_[x, x[::-1]]), ('(1,n)', x[None, :]), ('(n,2,3)', np.tile(x[:, None, None], (1, 2, 3))),
                   # the same with singleton dimensions added: still one sample of n columns / two columns
                   ('(1,n,1)', x[None, :, None]), ('(1,1,n)', x[None, None, :]), ('(n,2,1)', np.c_[x, x[::-1]][:, :, None]),
                   ('(n,1,2)', np.c_[x, x[::-1]][:, None, :])):
        try:
            out = f(X.copy(), copy.deepcopy(OPTS))
        except Exception:
            rec.cls('rejected ' + lay)
            continue
        shapes = [o.shape for o in arr(out)]
        raise Violation('C19/%s/multi-column-input-processed/%s' % (name, lay), 'returned arrays of shape %r for input %r' % (shapes, X.shape))
    rec.cls('routine=' + name)
    rec.cls('optset=%d' % case.get('optset', 0))
    rec.cls('readonly' if case['readonly'] else 'writable')
    return True


VECTOR = ['interp_envelope', 'get_padded_extrema', 'frequency_transform/hilbert', 'frequency_transform/nht',
          'frequency_transform/quad', 'amplitude_normalise', 'get_cycle_vector', 'Cycles', 'get_cycle_stat', 'phase_align',
          'bin_by_phase', 'hilberthuang']


def oracle_vector(case, rec):
    import emd
    x = gens.sig_of(case['sig'])
    n = x.size
    name = case['routine']
    phase = np.mod(np.cumsum(0.3 + 0.1 * np.abs(x) / (np.abs(x).max() or 1)), 2 * np.pi)
    cyc = np.asarray(emd.cycles.get_cycle_vector(phase.copy(), return_good=False))[:, 0]
    if name in ('get_cycle_vector', 'Cycles') and case['sig']['k'] % 3 == 0:
        # an unwrapped phase (values beyond 2pi; the routines wrap it themselves): the caller's array must come back untouched
        phase = np.cumsum(0.3 + 0.1 * np.abs(x) / (np.abs(x).max() or 1))
        rec.cls('unwrapped phase')
    squeeze = False
    if name == 'interp_envelope':
        f = lambda X: emd.sift.interp_envelope(X, mode='upper')            # noqa: E731
        variants = [[x], [x[:, None]]]
    elif name == 'get_padded_extrema':
        f = lambda X: emd.sift.get_padded_extrema(X, pad_width=2, mode='peaks')   # noqa: E731
        variants = [[x], [x[:, None]]]
    elif name.startswith('frequency_transform'):
        m = name.split('/')[1]
        f = lambda X: emd.spectra.frequency_transform(X, 100, m)          # noqa: E731
        variants = [[x], [x[:, None]]]
    elif name == 'amplitude_normalise':
        f = lambda X: emd.utils.amplitude_normalise(X)                    # noqa: E731
        variants = [[x[:, None]], [x[:, None, None]]]
        squeeze = True
    elif name == 'get_cycle_vector':
        f = lambda P: emd.cycles.get_cycle_vector(P, return_good=True)    # noqa: E731
        variants = [[phase], [phase[:, None]]]
    elif name == 'Cycles':
        f = lambda P: (lambda C: (np.asarray(C.cycle_vect), np.asarray(C.metrics['is_good'])))(emd.cycles.Cycles(P))   # noqa: E731
        variants = [[phase], [phase[:, None]]]
        squeeze = True
    elif name == 'get_cycle_stat':
        f = lambda c, v: emd.cycles.get_cycle_stat(c, v, func=np.sum)     # noqa: E731
        variants = [[cyc, x], [cyc[:, None], x], [cyc, x[:, None]]]
    elif name == 'phase_align':
        f = lambda p, v: emd.cycles.phase_align(p, v, npoints=12)         # noqa: E731
        variants = [[phase, x], [phase[:, None], x[:, None]], [phase, x[:, None]]]
    elif name == 'bin_by_phase':
        f = lambda p, v: emd.cycles.bin_by_phase(p, v, nbins=8)[0]        # noqa: E731
        variants = [[phase, x], [phase[:, None], x], [phase, x[:, None]]]
        squeeze = True
    else:
        edges = np.linspace(0, 3, 7)
        fr = np.abs(x) * 1.5
        f = lambda a, b: emd.spectra.hilberthuang(a, b, edges)            # noqa: E731
        variants = [[fr, np.abs(x)], [fr[:, None], np.abs(x)[:, None]]]
    outs = []
    import warnings
    with warnings.catch_warnings():
        warnings.simplefilter('ignore')
        for i, arrays in enumerate(variants):
            try:
                outs.append(call_checked(name, f, arrays, None, rec, case['readonly']))
            except Violation:
                raise
            except Exception as e:
                raise Violation('C19/%s/rejects-accepted-layout/%s' % (name, 'vector' if i == 0 else 'column'),
                                'shapes %r: %r' % ([a.shape for a in arrays], e))
    for i in range(1, len(outs)):
        if not same(outs[0], outs[i], squeeze=squeeze):
            raise Violation('C19/%s/layout-changes-result' % name, 'variant %d' % i)
    # the same values in another memory layout (strided view of a larger buffer / column-major)
    with warnings.catch_warnings():
        warnings.simplefilter('ignore')
        for lay in ('strided', 'F'):
            try:
                alt = f(*[gens.relayout(a, lay) for a in variants[0]])
            except Exception as e:
                raise Violation('C19/%s/rejects-memory-layout/%s' % (name, lay), repr(e))
            if not same(outs[0], alt, squeeze=squeeze):
                raise Violation('C19/%s/memory-layout-changes-result/%s' % (name, lay), '')
    rec.cls('routine=' + name)
    rec.cls('readonly' if case['readonly'] else 'writable')
    return True


LENGTHS = ['hilberthuang', 'hilberthuang_1d', 'holospectrum', 'get_cycle_vector+mask', 'get_cycle_stat', 'phase_align',
           'bin_by_phase', 'get_cycle_stat/Cycles-object', 'phase_align/Cycles-object']


def oracle_lengths(case, rec):
    import emd
    x = gens.sig_of(case['sig'])
    n = x.size
    name = case['routine']
    short = case['sig']['k'] % 2 == 0
    m = n - 1 - (case['sig']['k'] % 5) if short else n + 1 + (case['sig']['k'] % 5)
    phase = np.mod(np.cumsum(0.3 + 0.1 * np.abs(x) / (np.abs(x).max() or 1)), 2 * np.pi)
    cyc = np.asarray(emd.cycles.get_cycle_vector(phase.copy(), return_good=False))[:, 0]
    edges = np.linspace(0, 3, 7)
    fr = np.abs(np.c_[x, x[::-1]]) * 1.5
    am = np.abs(np.c_[x, x[::-1]])

    def cut(a):
        return np.resize(a, (m,) + a.shape[1:]) if a.ndim > 1 else np.resize(a, m)
    fr3 = np.tile(fr[:, :, None], (1, 1, 2))
    if name == 'hilberthuang':
        f, good, bads = (lambda a, b: emd.spectra.hilberthuang(a, b, edges)), [fr, am], [[fr, cut(am)], [cut(fr), am]]
    elif name == 'hilberthuang_1d':
        f, good, bads = (lambda a, b: emd.spectra.hilberthuang_1d(a, b, edges)), [fr, am], [[fr, cut(am)], [cut(fr), am]]
    elif name == 'holospectrum':
        f = lambda a, b, c: emd.spectra.holospectrum(a, b, c, edges, edges)     # noqa: E731
        good, bads = [fr, fr3, fr3], [[cut(fr), fr3, fr3], [fr, cut(fr3), fr3], [fr, fr3, cut(fr3)]]
    elif name == 'get_cycle_vector+mask':
        f = lambda p, mk: emd.cycles.get_cycle_vector(p, return_good=True, mask=mk)   # noqa: E731
        mk = np.ones(n, dtype=bool)
        good, bads = [phase, mk], [[phase, np.ones(m, dtype=bool)]]
    elif name == 'get_cycle_stat/Cycles-object':
        Cobj = emd.cycles.Cycles(phase.copy())
        f = lambda v: emd.cycles.get_cycle_stat(Cobj, v, func=np.sum)           # noqa: E731
        good, bads = [x], [[cut(x)]]
    elif name == 'phase_align/Cycles-object':
        Cobj = emd.cycles.Cycles(phase.copy())
        f = lambda p, v: emd.cycles.phase_align(p, v, cycles=Cobj, npoints=12)  # noqa: E731
        good, bads = [phase, x], [[cut(phase), cut(x)]]
    elif name == 'get_cycle_stat':
        f = lambda c, v: emd.cycles.get_cycle_stat(c, v, func=np.sum)           # noqa: E731
        good, bads = [cyc, x], [[cyc, cut(x)], [cut(cyc), x]]
    elif name == 'phase_align':
        f = lambda p, v: emd.cycles.phase_align(p, v, npoints=12)               # noqa: E731
        good, bads = [phase, x], [[phase, cut(x)], [cut(phase), x]]
    else:
        f = lambda p, v: emd.cycles.bin_by_phase(p, v, nbins=8)[0]              # noqa: E731
        good, bads = [phase, x], [[phase, cut(x)], [cut(phase), x]]
    import warnings
    with warnings.catch_warnings():
        warnings.simplefilter('ignore')
        try:
            call_checked(name, f, good, None, rec, case['readonly'])
        except Violation:
            raise
        except Exception as e:
            raise Violation('C19/%s/rejects-equal-lengths' % name, repr(e))
        for i, arrays in enumerate(bads):
            try:
                out = f(*[a.copy() for a in arrays])
            except Exception:
                rec.cls('rejected-mismatch')
                continue
            raise Violation('C19/%s/mismatched-lengths-processed/%s' % (name, 'shorter' if short else 'longer'),
                            'argument shapes %r' % ([a.shape for a in arrays],))
    rec.cls('routine=' + name)
    return True


OPTION_ROUTINES = ['sift_second_layer', 'mask_sift_second_layer', 'sift_second_layer+max_imfs', 'mask_sift_second_layer+max_imfs',
                   'mask_sift+array-amp', 'get_padded_extrema+pad-dicts', 'SiftConfig-call']


def oracle_options(case, rec):
    import emd
    x = gens.sig_of(case['sig'])
    name = case['routine']
    try:
        ia = np.abs(np.asarray(emd.sift.sift(x.copy(), max_imfs=2))) + 0.1
    except emd.support.EMDSiftCovergeError:
        raise Discard('convergence error')
    except Exception as e:
        raise Violation('C19/sift/default-call-raises/' + type(e).__name__, repr(e))
    freqs = [0.2, 0.08, 0.03]
    base = {'imf_opts': {'stop_method': 'fixed', 'max_iters': 3}, 'envelope_opts': {'interp_method': 'pchip'},
            'extrema_opts': {'pad_width': 3, 'mag_pad_opts': {'mode': 'median', 'stat_length': 2}}}
    if name.startswith('sift_second_layer'):
        o = dict(base, max_imfs=2) if name.endswith('max_imfs') else dict(base)
        f = lambda IA, o: emd.sift.sift_second_layer(IA, sift_args=o)            # noqa: E731
        arrays = [ia]
    elif name.startswith('mask_sift_second_layer'):
        o = dict(base, max_imfs=2, nphases=2) if name.endswith('max_imfs') else dict(base, nphases=2)
        f = lambda IA, o: emd.sift.mask_sift_second_layer(IA, freqs, sift_args=o)   # noqa: E731
        arrays = [ia]
    elif name == 'mask_sift+array-amp':
        o = dict(base, mask_amp=np.array([1.0, 0.5, 2.0]), mask_freqs=np.array(freqs), max_imfs=3, nphases=2,
                 mask_amp_mode=['ratio_imf', 'ratio_sig', 'abs'][case['sig']['k'] % 3])
        f = lambda X, o: emd.sift.mask_sift(X, **o)                             # noqa: E731
        arrays = [x]
    elif name == 'get_padded_extrema+pad-dicts':
        o = {'pad_width': 2, 'loc_pad_opts': {'mode': 'reflect', 'reflect_type': 'odd'},
             'mag_pad_opts': {'mode': 'median', 'stat_length': 2}}
        f = lambda X, o: emd.sift.get_padded_extrema(X, **o)                    # noqa: E731
        arrays = [x]
    else:
        conf = emd.sift.get_config('sift')
        conf['max_imfs'] = 2
        conf['imf_opts/sd_thresh'] = 0.3
        o = {'store': conf}
        f = lambda X, o: emd.sift.sift(X, **o['store'])                         # noqa: E731
        arrays = [x]
        o = None
        before = copy.deepcopy(conf.store)
        out = emd.sift.sift(x.copy(), **conf)
        out2 = conf.get_func()(x.copy())
        if not deep_equal(conf.store, before):
            raise Violation('C19/SiftConfig/modified-by-call', '')
        if not same(out, out2):
            raise Violation('C19/SiftConfig/get_func-differs', '')
        rec.cls('routine=' + name)
        return True
    try:
        call_checked(name, f, arrays, o, rec, case['readonly'])
    except Violation:
        raise
    except emd.support.EMDSiftCovergeError:
        raise Discard('convergence error')
    except Exception as e:
        raise Violation('C19/%s/raises/%s' % (name, type(e).__name__), repr(e))
    # a configuration object obtained from the library, edited in place and never used: default calls made afterwards, and the
    # defaults a fresh configuration reports, must be what they were
    n = x.size
    try:
        fresh_before = copy.deepcopy(emd.sift.get_config('sift').store)
        base0 = np.asarray(emd.sift.sift(x.copy(), max_imfs=3))
        cfg = emd.sift.get_config(['sift', 'mask_sift', 'ensemble_sift'][n % 3])
        cfg['extrema_opts/mag_pad_opts/stat_length'] = 4
        cfg['imf_opts/sd_thresh'] = 0.37
        after0 = np.asarray(emd.sift.sift(x.copy(), max_imfs=3))
        fresh_after = emd.sift.get_config('sift').store
    except emd.support.EMDSiftCovergeError:
        after0 = base0 = None
    if base0 is not None:
        if not same(base0, after0):
            raise Violation('C19/sift/default-call-changes-after-an-unused-configuration-was-edited', '')
        if repr(fresh_before) != repr(fresh_after):
            raise Violation('C19/get_config/defaults-changed-after-another-configuration-was-edited',
                            '%r -> %r' % (fresh_before.get('extrema_opts'), fresh_after.get('extrema_opts')))
    rec.cls('routine=' + name)
    return True


# ----------------------------------------------------------------------------
# buffer reuse: the same array objects, new contents

REUSE = ['hilberthuang/sparse', 'sift', 'mask_sift/zc', 'get_next_imf', 'get_next_imf_mask', 'interp_envelope', 'get_padded_extrema',
         'frequency_transform/hilbert', 'frequency_transform/nht', 'frequency_transform/quad', 'amplitude_normalise',
         'quadrature_transform', 'hilberthuang', 'hilberthuang_1d', 'holospectrum', 'get_cycle_vector', 'get_cycle_vector+mask',
         'get_cycle_stat', 'phase_align', 'bin_by_phase', 'Cycles', 'kdt_match', 'project_subset_to_samples', 'is_good',
         'define_hist_bins_from_data']


def reuse_entry(emd, name):
    """(function of arrays, builder of the argument arrays from a signal)."""
    S, SP, CY, CS = emd.sift, emd.spectra, emd.cycles, emd._cycles_support
    edges = np.linspace(0, 3, 7)

    def phase_of(x):
        return np.mod(np.cumsum(0.3 + 0.1 * np.abs(x) / (np.abs(x).max() or 1)), 2 * np.pi)

    def cyc_of(x):
        return np.asarray(CY.get_cycle_vector(phase_of(x), return_good=False))[:, 0]
    table = {
        'sift': (lambda X: S.sift(X, max_imfs=3), lambda x: [x]),
        'mask_sift/zc': (lambda X: S.mask_sift(X, max_imfs=2, nphases=2), lambda x: [x]),
        'get_next_imf': (lambda X: S.get_next_imf(X), lambda x: [x[:, None]]),
        'get_next_imf_mask': (lambda X: S.get_next_imf_mask(X, 0.2, 0.5, nphases=2), lambda x: [x[:, None]]),
        'interp_envelope': (lambda X: S.interp_envelope(X, mode='combined', extrema_opts={'pad_width': 2, 'parabolic_extrema': True}), lambda x: [x]),
        'get_padded_extrema': (lambda X: S.get_padded_extrema(X, pad_width=2, mode='troughs'), lambda x: [x]),
        'frequency_transform/hilbert': (lambda X: SP.frequency_transform(X, 100, 'hilbert'), lambda x: [np.c_[x, x[::-1]]]),
        'frequency_transform/nht': (lambda X: SP.frequency_transform(X, 100, 'nht'), lambda x: [np.c_[x, x[::-1]]]),
        'frequency_transform/quad': (lambda X: SP.frequency_transform(X, 100, 'quad'), lambda x: [np.c_[x, x[::-1]]]),
        'amplitude_normalise': (lambda X: emd.utils.amplitude_normalise(X), lambda x: [np.c_[x, x[::-1]]]),
        'quadrature_transform': (lambda X: SP.quadrature_transform(X), lambda x: [np.c_[x, x[::-1]]]),
        'hilberthuang': (lambda f, a: SP.hilberthuang(f, a, edges), lambda x: [np.abs(np.c_[x, x[::-1]]) * 1.5, np.abs(np.c_[x, x[::-1]])]),
        'hilberthuang/sparse': (lambda f, a: SP.hilberthuang(f, a, np.linspace(0, 30, 7), mode='amplitude', return_sparse=True),
                                lambda x: [np.abs(np.c_[x, x[::-1]]) * 1.5, np.abs(np.c_[x, x[::-1]])]),
        'hilberthuang_1d': (lambda f, a: SP.hilberthuang_1d(f, a, edges), lambda x: [np.abs(np.c_[x, x[::-1]]) * 1.5, np.abs(np.c_[x, x[::-1]])]),
        'holospectrum': (lambda f, f2, a2: SP.holospectrum(f, f2, a2, edges, edges, squash_time=False),
                         lambda x: [np.abs(np.c_[x, x[::-1]]) * 1.5, np.abs(np.tile(x[:, None, None], (1, 2, 2))) * 1.2,
                                    np.abs(np.tile(x[::-1][:, None, None], (1, 2, 2)))]),
        'get_cycle_vector': (lambda p: CY.get_cycle_vector(p, return_good=True), lambda x: [phase_of(x)]),
        'get_cycle_vector+mask': (lambda p, m: CY.get_cycle_vector(p, return_good=False, mask=m), lambda x: [phase_of(x), x > -0.5]),
        'get_cycle_stat': (lambda c, v: CY.get_cycle_stat(c, v, func=np.sum), lambda x: [cyc_of(x), x]),
        'phase_align': (lambda p, v: CY.phase_align(p, v, npoints=12), lambda x: [phase_of(x), x]),
        'bin_by_phase': (lambda p, v: CY.bin_by_phase(p, v, nbins=8)[0], lambda x: [phase_of(x), x]),
        'Cycles': (lambda p: (lambda C: (np.asarray(C.cycle_vect), np.asarray(C.metrics['is_good'])))(CY.Cycles(p)), lambda x: [phase_of(x)]),
        'kdt_match': (lambda a, b: CY.kdt_match(a, b, K=3), lambda x: [np.c_[x[:20], x[20:40]], np.c_[x[5:30] * 1.1, x[3:28]]]),
        'project_subset_to_samples': (lambda c, sv: CS.project_subset_to_samples(np.arange(int(sv.max()) + 1, dtype=float), sv, c),
                                      lambda x: [cyc_of(x), (lambda k: np.where(np.arange(k) % 2 == (x[0] > 0), np.cumsum(np.arange(k) % 2 == (x[0] > 0)) - 1, -1))(int(cyc_of(x).max()) + 1)]),
        'is_good': (lambda p: CY.is_good(p, ret_all_checks=True), lambda x: [np.sort(phase_of(x))[:12]]),
        'define_hist_bins_from_data': (lambda X: SP.define_hist_bins_from_data(X), lambda x: [x]),
    }
    return table[name]


@st.composite
def reuse_case(draw):
    n = draw(st.sampled_from([48, 64, 100]))

    def sig():
        return {'family': draw(st.sampled_from(['tones', 'amfm', 'noise', 'walk'])), 'n': n,
                'k': draw(st.integers(0, 2**32 - 1)), 'p1': draw(st.floats(0, 1)), 'p2': draw(st.floats(0, 1))}
    return {'routine': draw(st.sampled_from(REUSE)), 'sigA': sig(), 'sigB': sig()}


def scribble(r):
    """Overwrite, in place, every writable array reachable from a returned result."""
    if hasattr(r, 'toarray') and hasattr(r, 'data'):
        r = r.data
    if isinstance(r, np.ndarray):
        if r.flags.writeable and r.size and r.dtype.kind in 'fiub':
            if r.dtype.kind == 'b':
                r[...] = ~r
            elif r.dtype.kind == 'f':
                r *= 128.0
                r += 1.0
            else:
                r += 3
    elif isinstance(r, (tuple, list)):
        for v in r:
            scribble(v)
    elif isinstance(r, dict):
        for v in r.values():
            scribble(v)


def oracle_reuse(case, rec):
    """f(buffers holding A); overwrite the same buffer objects in place with B; f(buffers) must equal f(fresh copies of B):
    nothing keyed on the identity of an argument may survive a call."""
    import emd
    import warnings
    name = case['routine']
    f, build = reuse_entry(emd, name)
    with warnings.catch_warnings():
        warnings.simplefilter('ignore')
        try:
            A = [np.array(a) for a in build(gens.sig_of(case['sigA']))]
            B = [np.array(b) for b in build(gens.sig_of(case['sigB']))]
        except Exception:
            raise Discard('argument construction failed for this signal')
        if any(a.shape != b.shape or a.dtype != b.dtype for a, b in zip(A, B)):
            raise Discard('the two argument sets differ in shape (data-dependent construction)')
        try:
            bufs = [a.copy() for a in A]
            first = f(*bufs)
            if hasattr(first, 'toarray'):
                first_snapshot = np.asarray(first.toarray()).copy()
            else:
                first_snapshot = copy.deepcopy(first)
            for buf, b in zip(bufs, B):
                buf[...] = b
            now = np.asarray(first.toarray()) if hasattr(first, 'toarray') else first
            if not same(first_snapshot, now):
                raise Violation('C19/%s/returned-result-aliases-an-input-array' % name,
                                'the result of the first call changed when the caller overwrote its input arrays')
            second = f(*bufs)
            now = np.asarray(first.toarray()) if hasattr(first, 'toarray') else first
            if not same(first_snapshot, now):
                raise Violation('C19/%s/earlier-result-changed-by-a-later-call' % name,
                                'the arrays returned by the first call were overwritten when the routine was called again')
            fresh = f(*[b.copy() for b in B])
            keep = np.asarray(fresh.toarray()).copy() if hasattr(fresh, 'toarray') else copy.deepcopy(fresh)
            scribble(fresh)               # the caller edits what it was given back, then asks again
            third = f(*[b.copy() for b in B])
            third = np.asarray(third.toarray()) if hasattr(third, 'toarray') else third
            if not same(third, keep):
                raise Violation('C19/%s/result-changes-after-the-caller-edited-an-earlier-result-in-place' % name, '')
            fresh = keep
        except Violation:
            raise
        except emd.support.EMDSiftCovergeError:
            raise Discard('convergence error')
        except Exception as e:
            raise Discard('routine rejects this input: %s' % type(e).__name__)
    if hasattr(second, 'toarray'):
        second = np.asarray(second.toarray())
    if not same(second, fresh):
        raise Violation('C19/%s/result-depends-on-an-earlier-call-through-the-same-array-objects' % name, '')
    rec.cls('routine=' + name)
    return True


@st.composite
def object_case(draw):
    ip, lens = draw(gens.monotone_cycles_phase(3, 8, 10, 60, total_max=400))
    steps = draw(st.lists(st.tuples(st.sampled_from(['get_control_points', 'phase_align', 'get_cycle_stat']),
                                    st.sampled_from(['cycle', 'cycle', 'augmented'])), min_size=2, max_size=5))
    return {'ip': ip, 'steps': steps, 'use_cache': draw(st.booleans())}


def oracle_object(case, rec):
    """One Cycles object handed to a series of cycle routines, some of them in 'augmented' mode: every call must give what the
    identical call gives on a container built afresh from the same phase - repeating a deterministic call gives an identical
    result, whatever was asked of the same object in between."""
    import emd
    import warnings
    ip = np.asarray(case['ip'], dtype=float)
    x = np.cos(ip) + 0.1 * np.cos(3 * ip)

    def run(routine, mode, C):
        if routine == 'get_control_points':
            return emd.cycles.get_control_points(x.copy(), C, mode=mode)
        if routine == 'phase_align':
            return emd.cycles.phase_align(ip.copy(), x.copy(), cycles=C, npoints=16, mode=mode)
        return emd.cycles.get_cycle_stat(C, x.copy(), func=np.mean, mode=mode)
    with warnings.catch_warnings():
        warnings.simplefilter('ignore')
        try:
            shared = emd.cycles.Cycles(ip.copy(), use_cache=case['use_cache'])
        except Exception as e:
            raise Violation('C19/Cycles/raises/' + type(e).__name__, repr(e))
        prev = 'first-call'
        for routine, mode in case['steps']:
            try:
                got = run(routine, mode, shared)
                fresh = run(routine, mode, emd.cycles.Cycles(ip.copy(), use_cache=case['use_cache']))
            except Exception as e:
                raise Violation('C19/%s/Cycles-object/raises/%s/mode=%s' % (routine, type(e).__name__, mode), repr(e))
            if not same(got, fresh):
                raise Violation('C19/%s/Cycles-object/result-depends-on-earlier-calls-through-the-same-object/mode=%s/after-%s' % (routine, mode, prev),
                                'steps %r' % (case['steps'],))
            prev = '%s(%s)' % (routine, mode)
            rec.cls('%s mode=%s' % (routine, mode))
    return len({m for _, m in case['steps']}) == 2


CLAUSES = [
    Clause('C19.object', oracle_object, strategy=object_case(), quick=400, thorough=8000, shards=(4, 16),
           nt_rule='a series that uses both modes on the same container'),
    Clause('C19.reuse', oracle_reuse, strategy=reuse_case(), quick=960, thorough=20000, shards=(8, 16),
           nt_rule='every evaluated (routine, signal pair)'),
    Clause('C19.single', oracle_single, strategy=sig_case(SINGLE), quick=640, thorough=8000, shards=(16, 16),
           nt_rule='3 accepted layouts compared and 7 rejected layouts tried'),
    Clause('C19.vector', oracle_vector, strategy=sig_case(VECTOR), quick=720, thorough=12000, shards=(8, 16),
           nt_rule='>= 2 accepted layouts compared'),
    Clause('C19.lengths', oracle_lengths, strategy=sig_case(LENGTHS), quick=700, thorough=12000, shards=(8, 16),
           nt_rule='equal lengths accepted and mismatched lengths tried'),
    Clause('C19.options', oracle_options, strategy=sig_case(OPTION_ROUTINES), quick=280, thorough=4000, shards=(8, 16),
           nt_rule='caller-owned option dictionaries compared before / after'),
]
