"""C01 - the classic sift is a complete additive decomposition of its input."""
import copy

import numpy as np
from hypothesis import strategies as st

from ..core import Clause, Violation, Discard
from .. import gens, refmodel

RULE = ("Cases: Hypothesis signals of length 3..400 (quick) / 3..2000 (thorough) from all families (noise, random walk, "
        "multi-tone + trend, AM/FM, integer-valued/plateau, constant, ramp, edge-plateau; short noisy signals "
        "over-weighted; stored as float64, float32, int64 or int16) x stop rule (a quarter of the sd / rilling cases with an iteration limit of 1..10) x step size x {splrep,pchip,mono_pchip} x pad_width 1..5 x parabolic refinement on/off x magnitude padding rule {default, mean, median, edge, maximum, linear_ramp, constant}, max_imfs=None, no "
        "energy threshold, sift_thresh in {default, exactly 0, 2% / 20% of sum|x|}. Oracle: result is a finite [N x K] array or the documented "
        "EMDSiftCovergeError; unless sum|last column| < sift_thresh: max|sum_k imf_k - x| <= 1e-9*max|x| and the "
        "last column has < 2 strict interior maxima or < 2 strict interior minima. Exit paths of every extraction "
        "(A input had no extrema / B extrema vanished after >= 1 mean removals / C stop rule fired) are measured "
        "with the reference extraction on the residuals. Non-trivial: K >= 2 columns.")
MAGPADS = [{'mode': 'mean', 'stat_length': 3}, {'mode': 'median', 'stat_length': 3}, {'mode': 'edge'}, {'mode': 'maximum'},
           {'mode': 'linear_ramp', 'end_values': (0.5, -0.5)}, {'mode': 'constant', 'constant_values': 0.25}]

ASSUMPTIONS = ["nothing is asserted about IMF quality; convergence errors are an accepted, counted outcome"]


@st.composite
def case(draw):
    sig = draw(gens.sift_signal(400))
    sm = draw(st.sampled_from(['sd', 'sd', 'rilling', 'fixed']))
    opts = {'stop_method': sm, 'env_step_size': draw(st.sampled_from([1, 1, 0.75, 0.5, 1 / 3]))}
    if sm == 'sd':
        opts['sd_thresh'] = draw(st.sampled_from([0.5, 0.2, 0.1, 0.05, 0.02]))
    elif sm == 'rilling':
        opts['rilling_thresh'] = draw(st.sampled_from([(0.05, 0.5, 0.05), (0.1, 0.8, 0.1), (0.2, 0.9, 0.2)]))
    else:
        opts['max_iters'] = draw(st.integers(1, 25))
    if sm != 'fixed' and draw(st.integers(0, 3)) == 0:
        # a tight iteration limit: some IMF (often not the first) fails to converge within it
        opts['max_iters'] = draw(st.integers(1, 10))
    # sift threshold: the default, exactly zero (never cut short: the run must end of its own accord), or a sizeable
    # fraction of the signal's own absolute sum (cut after the first component or two)
    return {'sig': sig, 'opts': opts, 'interp': draw(st.sampled_from(['splrep', 'pchip', 'mono_pchip'])),
            'pad': draw(st.integers(1, 5)), 'thresh': draw(st.sampled_from([None, None, None, 0, 0.0, 'rel:0.2', 'rel:0.02'])),
            'par': draw(st.sampled_from([False, False, False, True])), 'magpad': draw(st.sampled_from([None, None, None, 0, 1, 2, 3, 4, 5])),
            'pre': draw(st.sampled_from([False, False, True]))}


@st.composite
def short_case(draw):
    """7..12-sample noise: the region where extractions end because extrema vanish (exit path B)."""
    c = draw(case())
    c['sig'] = {'family': 'noise', 'n': draw(st.sampled_from([7, 8, 9, 10, 12])), 'k': draw(st.integers(0, 2**32 - 1)),
                'p1': 0.0, 'p2': 0.0}
    c['interp'] = draw(st.sampled_from(['splrep', 'splrep', 'pchip', 'mono_pchip']))
    return c


def long_case():
    @st.composite
    def build(draw):
        c = draw(case())
        c['sig'] = draw(gens.family_signal(400, 2000, families=('noise', 'walk', 'tones', 'amfm', 'levels'), small_bias=False))
        if c['interp'] != 'splrep':
            # PCHIP sifts of long noisy records run to 100+ components of up to 1000 iterations each: bound the cost
            c['sig']['n'] = min(c['sig']['n'], 800)
        return c
    return build()


def oracle(case, rec):
    import emd
    xin = gens.sig_of(case['sig'])          # possibly float32 / integer dtype
    x = xin.astype(float)
    eo = {'interp_method': case['interp']}
    xo = {'pad_width': case['pad']}
    if case.get('par'):
        xo['parabolic_extrema'] = True
    if case.get('magpad') is not None:
        xo['mag_pad_opts'] = dict(MAGPADS[case['magpad']])
    rec.cls('extrema-options=%s' % ('pad-width-only' if len(xo) == 1 else 'refined/custom-padding'))
    opts = dict(case['opts'])
    thresh = 1e-8
    kw = {}
    tsel = case.get('thresh')
    if tsel is not None and not (tsel in (0, 0.0) and (case['interp'] != 'splrep' or x.size > 150)):
        # (a zero threshold with PCHIP envelopes or long records means hundreds of 1e-12-sized components: cost only)
        thresh = float(tsel.split(':')[1]) * np.abs(x).sum() if isinstance(tsel, str) else tsel
        kw['sift_thresh'] = thresh
    rec.cls('sift_thresh=%s' % ('default' if not kw else 'zero' if thresh == 0 else 'large'))
    if case.get('pre'):
        # an earlier, different request in the same process (another record, an energy threshold, a loose stop rule):
        # nothing of it may carry over into the call under test
        try:
            emd.sift.sift(x[::-1].copy() * 0.5 + 1.0, max_imfs=3,
                          imf_opts={'energy_thresh': 40, 'sd_thresh': 0.4, 'max_iters': 200, 'env_step_size': 0.9})
        except Exception:
            pass
        rec.cls('after an earlier call with other options')
    pristine = np.array(xin, copy=True)
    given = gens.arg(xin)
    try:
        imf = emd.sift.sift(given, imf_opts=dict(opts), envelope_opts=dict(eo), extrema_opts=copy.deepcopy(xo), **kw)
    except emd.support.EMDSiftCovergeError:
        rec.cls('outcome=convergence-error')
        return False
    except Exception as e:
        raise Violation('C01/sift/raises/%s/%s' % (type(e).__name__, opts['stop_method']), repr(e))
    imf = np.asarray(imf)
    returned = imf
    if isinstance(given, np.ndarray) and given.flags.writeable and imf.size:
        # the caller goes on using its buffer (next record, detrending in place): the decomposition it keeps is of the signal
        # it passed, not of whatever the buffer holds later
        keep = imf.copy()
        given[...] = 0
        if not np.array_equal(imf, keep, equal_nan=True):
            raise Violation('C01/sift/result-shares-memory-with-the-input-array',
                            'the returned components changed when the caller overwrote its own input array')
        imf = keep
    if case.get('pre') and x.size <= 200 and isinstance(given, np.ndarray):
        # the caller normalises the components it was given in place, then decomposes the same record again
        held = returned
        keep2 = np.array(imf)
        if held.flags.writeable:
            held *= 3.0
            held += 1.0
        try:
            again = np.asarray(emd.sift.sift(pristine.copy(), imf_opts=dict(opts), envelope_opts=dict(eo), extrema_opts=copy.deepcopy(xo), **kw))
        except Exception as e:
            raise Violation('C01/sift/repeat-raises/' + type(e).__name__, repr(e))
        if again.shape != keep2.shape or not np.array_equal(again, keep2):
            raise Violation('C01/sift/repeated-call-differs-after-the-caller-edited-the-earlier-result', '')
        imf = keep2
    if imf.ndim != 2 or imf.shape[0] != x.size or imf.shape[1] < 1:
        raise Violation('C01/sift/shape', repr(imf.shape))
    if not np.all(np.isfinite(imf)):
        raise Violation('C01/sift/nonfinite', '')
    K = imf.shape[1]
    rec.cls('K=%s' % (K if K < 6 else '6-10' if K <= 10 else '11+'))
    rec.cls('family=' + case['sig'].get('family', 'elementwise'))
    rec.cls('dtype=' + case['sig'].get('dtype', 'f8'))
    # exit path of each extraction, measured independently on the residuals
    exits = []
    if x.size <= 200:
        for j in range(min(K, 10)):
            res = x - imf[:, :j].sum(axis=1)
            r = refmodel.ref_extract(res, envelope_opts=eo, extrema_opts=xo, hard_cap=1100, **opts)
            exits.append(r.exit)
            rec.cls('extraction-exit=' + {'no-extrema-input': 'A', 'extrema-vanished': 'B', 'stop-rule': 'C', 'limit': 'limit'}[r.exit])
    if np.abs(imf[:, -1]).sum() < thresh:
        rec.cls('outcome=cut-by-sift_thresh')
        return K >= 2
    scale = np.abs(x).max()
    err = np.abs(imf.sum(axis=1) - x).max()
    if err > 1e-9 * scale + 1e-300:
        path = 'after-extrema-vanished' if 'extrema-vanished' in exits else 'other'
        raise Violation('C01/sift/components-do-not-sum-to-input/' + path,
                        'max error %.3g (scale %.3g), K=%d, exits=%r, opts=%r, n=%d' % (err, scale, K, exits, opts, x.size))
    last = imf[:, -1]
    nmax = refmodel.strict_extrema(last, 'max').size
    nmin = refmodel.strict_extrema(last, 'min').size
    if nmax >= 2 and nmin >= 2:
        raise Violation('C01/sift/final-component-oscillates', '%d maxima and %d minima in the last of %d columns' % (nmax, nmin, K))
    rec.cls('outcome=complete')
    return K >= 2


CLAUSES = [
    Clause('C01.complete', oracle, strategy=case(), quick=2000, thorough=60000, shards=(16, 16), nt_rule='K >= 2 columns'),
    Clause('C01.short', oracle, strategy=short_case(), quick=2000, thorough=40000, shards=(4, 16), nt_rule='K >= 2 columns'),
    Clause('C01.long', oracle, strategy=long_case(), quick=32, thorough=2000, shards=(16, 16), nt_rule='K >= 2 columns'),
]
