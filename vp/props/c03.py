"""C03 - IMFs are peeled one at a time from the running residual; caps are respected."""
import numpy as np
from hypothesis import strategies as st

from ..core import Clause, Violation, Discard
from .. import gens, refmodel

RULE = ("Cases: signals (all families, up to 200 samples quick / 400 thorough) x option sets; each case first runs the "
        "uncapped variant (K columns) and then (prefix) every cap k=1..K+2: sift(x,max_imfs=k) must be bit-identical to "
        "the first min(k,K) columns, same for mask_sift with explicit mask frequencies; (peel) column j must equal "
        "get_next_imf (get_next_imf_mask with the documented frequency/amplitude rule) applied to x - sum of the "
        "first j columns - bit-exact first, 1e-8 next, otherwise a violation only if the reference model shows the "
        "extraction well conditioned; (cap) every variant {sift, mask_sift, ensemble_sift, complete_ensemble_sift, "
        "sift_second_layer, mask_sift_second_layer} x caps below / equal / above what the signal yields: returns (never raises for a valid "
        "cap), samples on axis 0, components <= cap, all finite, documented extras (noise matrix, 3-D layout). "
        "Non-trivial: a binding cap (1 <= k < K) with K >= 2.")
ASSUMPTIONS = ["ensemble variants run with nensembles 1..3, nprocesses=1 and a seeded global numpy RNG",
               "second layer is driven with the classic sift as sift_func"]


@st.composite
def opt_case(draw, max_n):
    sig = draw(gens.sift_signal(max_n))
    sm = draw(st.sampled_from(['sd', 'sd', 'rilling', 'fixed']))
    opts = {'stop_method': sm, 'env_step_size': draw(st.sampled_from([1, 1, 0.5, 1 / 3]))}
    if sm == 'sd':
        opts['sd_thresh'] = draw(st.sampled_from([0.5, 0.2, 0.1, 0.05]))
    elif sm == 'rilling':
        opts['rilling_thresh'] = draw(st.sampled_from([(0.05, 0.5, 0.05), (0.1, 0.8, 0.1), (0.2, 0.9, 0.2)]))
    else:
        opts['max_iters'] = draw(st.integers(1, 12))
    return {'sig': sig, 'opts': opts, 'interp': draw(st.sampled_from(['splrep', 'splrep', 'pchip', 'mono_pchip'])),
            'pad': draw(st.integers(1, 4)), 'par': draw(st.sampled_from([False, False, False, True])),
            'magpad': draw(st.sampled_from([None, None, None, 0, 1, 2, 3]))}


MAGPADS = [{'mode': 'mean', 'stat_length': 3}, {'mode': 'median', 'stat_length': 3}, {'mode': 'edge'}, {'mode': 'maximum'}]


def tier_n(fn, q, t):
    return lambda tier: fn(q if tier == 'quick' else t)


def oracle_sift(case, rec):
    """prefix + peel for the classic sift."""
    import emd
    x = gens.sig_of(case['sig'])            # possibly float32 / integer dtype: passed to emd as stored
    eo = {'interp_method': case['interp']}
    xo = {'pad_width': case['pad']}           # one options object for every call below, as a caller would hold it
    if case.get('par'):
        xo['parabolic_extrema'] = True
    if case.get('magpad') is not None:
        xo['mag_pad_opts'] = dict(MAGPADS[case['magpad']])
    rec.cls('extrema-options=%s' % ('pad-width-only' if len(xo) == 1 else 'refined/custom-padding'))
    kw = dict(imf_opts=dict(case['opts']), envelope_opts=eo, extrema_opts=xo)
    rec.cls('dtype=' + case['sig'].get('dtype', 'f8'))
    try:
        full = np.asarray(emd.sift.sift(gens.arg(x), **kw))
    except emd.support.EMDSiftCovergeError:
        raise Discard('uncapped sift does not converge')
    K = full.shape[1]
    binding = 0
    # every cap for small K; for long decompositions the first six caps and those around K (cost is O(K^2))
    caps = sorted(k for k in set(range(1, min(K, 6 if K <= 20 else 2) + 1)) | {K - 1, K, K + 1, K + 2} if k >= 1)
    if K > 20:
        caps = [k for k in caps if k != K + 2]
    for k in caps:
        try:
            capped = np.asarray(emd.sift.sift(gens.arg(x), max_imfs=k, **kw))
        except Exception as e:
            raise Violation('C03/sift/capped-raises/%s/%s' % (type(e).__name__, 'k<=K' if k <= K else 'k>K'), 'k=%d K=%d %r' % (k, K, e))
        cls = 'below' if k < K else 'equal' if k == K else 'above'
        rec.cls('cap-' + cls)
        if capped.ndim != 2 or capped.shape[0] != x.size:
            raise Violation('C03/sift/shape', repr(capped.shape))
        if capped.shape[1] > k:
            raise Violation('C03/sift/more-components-than-cap', 'k=%d got %d' % (k, capped.shape[1]))
        if capped.shape[1] != min(k, K) or not np.array_equal(capped, full[:, :min(k, K)]):
            raise Violation('C03/sift/cap-not-prefix-of-uncapped/' + cls, 'k=%d K=%d got %r columns' % (k, K, capped.shape[1]))
        if not np.all(np.isfinite(capped)):
            raise Violation('C03/sift/nonfinite', '')
        binding += k < K
    # peel
    x = x.astype(float)
    scale = np.abs(x).max() or 1.0
    for j in range(min(K, 10)):
        res = x - full[:, :j].sum(axis=1)
        try:
            nxt, flag = emd.sift.get_next_imf(res[:, None].copy(), envelope_opts=eo, extrema_opts=xo, **case['opts'])
        except emd.support.EMDSiftCovergeError:
            raise Violation('C03/sift/peel/extraction-raises', 'column %d' % j)
        nxt = np.asarray(nxt)[:, 0]
        if np.array_equal(nxt, full[:, j]):
            rec.cls('peel-bit-exact')
            continue
        if np.allclose(nxt, full[:, j], rtol=0, atol=1e-8 * scale):
            rec.cls('peel-within-1e-8')
            continue
        r = refmodel.ref_extract(res, envelope_opts=eo, extrema_opts=xo, hard_cap=1200, ignore_input_ties=(j == 0), **case['opts'])
        if r.kind == 'error' or r.note or r.margin_stop <= 1e-6 or r.margin_tie <= 1e-7 or r.margin_par <= 1e-4:
            rec.cls('peel-ill-conditioned-mismatch')
            break
        raise Violation('C03/sift/peel/column-is-not-extraction-of-residual', 'column %d of %d: rel dev %.3g' % (
            j, K, np.abs(nxt - full[:, j]).max() / scale))
    rec.cls('K=%s' % (K if K < 5 else '5+'))
    return binding >= 1 and K >= 2


@st.composite
def mask_case(draw, max_n):
    n = draw(st.sampled_from([n for n in (48, 64, 100, 128, 200, 256, 400) if n <= max_n]))
    sig = {'family': draw(st.sampled_from(['tones', 'amfm', 'noise', 'walk', 'levels'])), 'n': n,
           'k': draw(st.integers(0, 2**32 - 1)), 'p1': draw(st.floats(0, 1)), 'p2': draw(st.floats(0, 1))}
    nf = draw(st.integers(1, 5))
    freqs = [0.3 / (draw(st.sampled_from([1.7, 2.0, 3.0])) ** i) for i in range(nf)]
    mode = draw(st.sampled_from(['abs', 'ratio_sig', 'ratio_imf']))
    amp = draw(st.sampled_from([1, 0.5, 2.0, 'array']))
    if amp == 'array':
        amp = np.array([1.0, 0.5, 2.0, 1.5, 0.7, 1.0, 1.0, 1.0])
    return {'sig': sig, 'freqs': freqs, 'mode': mode, 'amp': amp, 'nphases': draw(st.sampled_from([1, 2, 4, 5])),
            'nproc': draw(st.sampled_from([1, 1, 2, 3])),
            'opts': {'stop_method': 'fixed', 'max_iters': draw(st.integers(1, 8))} if draw(st.booleans()) else
                    {'stop_method': 'sd', 'sd_thresh': draw(st.sampled_from([0.1, 0.3]))}}


def oracle_mask(case, rec):
    import emd
    x = gens.sig_of(case['sig'])
    freqs = list(case['freqs'])
    amp = case['amp']
    kw = dict(mask_amp=amp.copy() if isinstance(amp, np.ndarray) else amp, mask_amp_mode=case['mode'], nphases=case['nphases'],
              nprocesses=case.get('nproc', 1), imf_opts=dict(case['opts']))
    rec.cls('nprocesses=%d' % case.get('nproc', 1))
    try:
        full, mf = emd.sift.mask_sift(x.copy(), mask_freqs=list(freqs), max_imfs=len(freqs), ret_mask_freq=True, **kw)
    except emd.support.EMDSiftCovergeError:
        raise Discard('does not converge')
    except Exception as e:
        raise Violation('C03/mask_sift/raises/' + type(e).__name__, repr(e))
    full = np.asarray(full)
    K = full.shape[1]
    if K > len(freqs) or full.shape[0] != x.size or not np.all(np.isfinite(full)):
        raise Violation('C03/mask_sift/shape-or-nonfinite', repr(full.shape))
    binding = 0
    for k in range(1, K + 3):
        try:
            capped = np.asarray(emd.sift.mask_sift(x.copy(), mask_freqs=list(freqs), max_imfs=k, **kw))
        except Exception as e:
            raise Violation('C03/mask_sift/capped-raises/%s/%s' % (type(e).__name__, 'k<=K' if k <= K else 'k>K'), 'k=%d K=%d %r' % (k, K, e))
        cls = 'below' if k < K else 'equal' if k == K else 'above'
        rec.cls('cap-' + cls)
        if capped.shape[1] > k:
            raise Violation('C03/mask_sift/more-components-than-cap', 'k=%d got %d' % (k, capped.shape[1]))
        if capped.shape[1] != min(k, K) or not np.array_equal(capped, full[:, :min(k, K)]):
            raise Violation('C03/mask_sift/cap-not-prefix-of-uncapped/' + cls, 'k=%d K=%d got %d' % (k, K, capped.shape[1]))
        binding += k < K
    # peel with the documented frequency / amplitude rule
    scale = np.abs(x).max() or 1.0
    for j in range(K):
        res = x - full[:, :j].sum(axis=1)
        if case['mode'] == 'abs':
            sd = 1
        elif case['mode'] == 'ratio_sig' or j == 0:
            sd = x.std()
        else:
            sd = full[:, j - 1].std()
        a = (amp[j] if isinstance(amp, np.ndarray) else amp) * sd
        try:
            nxt, _ = emd.sift.get_next_imf_mask(res[:, None].copy(), freqs[j], a, nphases=case['nphases'], imf_opts=dict(case['opts']))
        except Exception as e:
            raise Violation('C03/mask_sift/peel/extraction-raises/' + type(e).__name__, 'column %d: %r' % (j, e))
        nxt = np.asarray(nxt)[:, 0]
        if np.array_equal(nxt, full[:, j]):
            rec.cls('peel-bit-exact')
        elif np.allclose(nxt, full[:, j], rtol=0, atol=1e-8 * scale):
            rec.cls('peel-within-1e-8')
        else:
            raise Violation('C03/mask_sift/peel/column-is-not-masked-extraction-of-residual/' + case['mode'],
                            'column %d of %d: rel dev %.3g' % (j, K, np.abs(nxt - full[:, j]).max() / scale))
    rec.cls('mode=' + case['mode'])
    return binding >= 1 and K >= 2


@st.composite
def variant_case(draw, max_n):
    n = draw(st.sampled_from([n for n in (16, 24, 32, 64, 100, 128, 200, 256) if n <= max_n]))
    sig = {'family': draw(st.sampled_from(['tones', 'amfm', 'noise', 'walk', 'levels'])), 'n': n,
           'k': draw(st.integers(0, 2**32 - 1)), 'p1': draw(st.floats(0, 1)), 'p2': draw(st.floats(0, 1))}
    return {'sig': sig, 'variant': draw(st.sampled_from(['ensemble_sift', 'complete_ensemble_sift', 'sift_second_layer',
                                                         'sift_second_layer_defaults', 'mask_sift_second_layer'])),
            'capoff': draw(st.integers(-3, 2)), 'nens': draw(st.integers(1, 3)),
            'noise_mode': draw(st.sampled_from(['single', 'flip'])), 'seed': draw(st.integers(0, 2**31 - 1)),
            'noise': draw(st.sampled_from([0.05, 0.2, 1.0]))}


def oracle_variant(case, rec):
    import emd
    x = gens.sig_of(case['sig'])
    try:
        base = np.asarray(emd.sift.sift(x.copy()))
    except emd.support.EMDSiftCovergeError:
        raise Discard('classic sift does not converge')
    K = base.shape[1]
    k = max(1, K + case['capoff'])
    cls = 'below' if k < K else 'equal' if k == K else 'above'
    v = case['variant']
    np.random.seed(case['seed'])
    try:
        if v == 'ensemble_sift':
            out = emd.sift.ensemble_sift(x.copy(), nensembles=case['nens'], ensemble_noise=case['noise'],
                                         noise_mode=case['noise_mode'], max_imfs=k)
            imf, extra = np.asarray(out), None
        elif v == 'complete_ensemble_sift':
            out = emd.sift.complete_ensemble_sift(x.copy(), nensembles=case['nens'], ensemble_noise=case['noise'],
                                                  noise_mode=case['noise_mode'], max_imfs=k)
            if not (isinstance(out, tuple) and len(out) == 2):
                raise Violation('C03/complete_ensemble_sift/extras', 'expected (imf, noise)')
            imf, extra = np.asarray(out[0]), np.asarray(out[1])
        elif v == 'sift_second_layer':
            ia = np.abs(base[:, :min(K, 4)]) + 0.1
            out = emd.sift.sift_second_layer(ia.copy(), sift_args={'max_imfs': k})
            imf, extra = np.asarray(out), ia
        elif v == 'mask_sift_second_layer':
            ia = np.abs(base[:, :min(K, 3)]) + 0.1
            masks = [0.25 / 2 ** i for i in range(ia.shape[1] + 2)]
            out = emd.sift.mask_sift_second_layer(ia.copy(), masks, sift_args={'max_imfs': k, 'nphases': 2})
            imf, extra = np.asarray(out), ia
        else:
            ia = np.abs(base[:, :min(K, 4)]) + 0.1
            out = emd.sift.sift_second_layer(ia.copy())
            imf, extra = np.asarray(out), ia
            k = None
            # a single first-layer envelope handed over as a plain vector: one amplitude series, so at most one row of
            # second-layer IMFs and (default cap = number of first-layer IMFs) at most one component
            try:
                one = np.asarray(emd.sift.sift_second_layer(ia[:, 0].copy()))
            except emd.support.EMDSiftCovergeError:
                one = None
            if one is not None and (one.ndim != 3 or one.shape[0] != x.size or one.shape[1] != 1 or one.shape[2] > 1):
                raise Violation('C03/sift_second_layer/vector-input/more-components-than-the-default-cap', 'got %r for a vector of %d samples' % (one.shape, x.size))
            if ia.shape[1] >= 2:
                # one caller-owned options dictionary (no cap in it) serving a wide and then a narrower amplitude set: the
                # default cap is the width of the set at hand, whatever was decomposed before through the same dictionary
                shared = {'imf_opts': {'sd_thresh': 0.1}}
                emd.sift.sift_second_layer(ia.copy(), sift_args=shared)
                narrow = ia[:, :ia.shape[1] - 1 - (case['seed'] % 2 if ia.shape[1] > 2 else 0)]
                got = np.asarray(emd.sift.sift_second_layer(narrow.copy(), sift_args=shared))
                fresh = np.asarray(emd.sift.sift_second_layer(narrow.copy(), sift_args={'imf_opts': {'sd_thresh': 0.1}}))
                if got.shape != fresh.shape or not np.array_equal(got, fresh):
                    raise Violation('C03/sift_second_layer/result-depends-on-an-earlier-call-through-the-same-options-dictionary',
                                    'shape %r through the reused dictionary, %r through a fresh one (IA %r after IA %r)' %
                                    (got.shape, fresh.shape, narrow.shape, ia.shape))
                rec.cls('options dictionary reused for a narrower amplitude set')
    except Violation:
        raise
    except emd.support.EMDSiftCovergeError:
        raise Discard('convergence error')
    except Exception as e:
        raise Violation('C03/%s/raises/%s/cap-%s' % (v, type(e).__name__, cls), 'k=%r K=%d n=%d: %r' % (k, K, x.size, e))
    if 'second_layer' in v:
        if imf.ndim != 3 or imf.shape[0] != x.size or imf.shape[1] != extra.shape[1]:
            raise Violation('C03/%s/layout' % v, 'got %r for IA %r' % (imf.shape, extra.shape))
        ncomp = imf.shape[2]
    else:
        if imf.ndim != 2 or imf.shape[0] != x.size:
            raise Violation('C03/%s/layout' % v, 'got %r' % (imf.shape,))
        ncomp = imf.shape[1]
        if v == 'complete_ensemble_sift' and (extra.ndim != 2 or extra.shape != (x.size, case['nens'])):
            raise Violation('C03/complete_ensemble_sift/noise-matrix-layout', 'got %r' % (extra.shape,))
    if k is not None and ncomp > k:
        raise Violation('C03/%s/more-components-than-cap' % v, 'cap %d, got %d (classic sift yields %d)' % (k, ncomp, K))
    if not np.all(np.isfinite(imf)):
        raise Violation('C03/%s/nonfinite' % v, '')
    rec.cls(v)
    rec.cls('cap-' + cls)
    return k is not None and k < K and K >= 2


CLAUSES = [
    Clause('C03.sift', oracle_sift, strategy=tier_n(opt_case, 100, 400), quick=1600, thorough=12000, shards=(16, 16),
           nt_rule='binding cap and K >= 2'),
    Clause('C03.mask', oracle_mask, strategy=tier_n(mask_case, 200, 400), quick=400, thorough=4000, shards=(16, 16),
           nt_rule='binding cap and K >= 2'),
    Clause('C03.variants', oracle_variant, strategy=tier_n(variant_case, 128, 256), quick=800, thorough=6000, shards=(16, 16),
           nt_rule='binding cap and K >= 2'),
]
