"""C15 - the cycle container keeps metrics, subsets and chains coherent (model-based, call histories)."""
import numpy as np
from hypothesis import strategies as st

from ..core import Clause, Violation, Discard
from .. import gens, refmodel

RULE = ("Cases: a phase series (2-12 cycles of unequal length; monotone 'good' cycles, noisy / reversing phases, or a mix) and a "
        "history of up to 12 container operations applied in lock-step to Cycles(phase, use_cache=True) and "
        "Cycles(phase, use_cache=False): compute_cycle_metric(name, values, func in {mean,max,sum,len,first,range}, mode in "
        "{cycle, augmented}), add_cycle_metric (right and wrong length), compute_cycle_timings, pick_cycle_subset with 1-3 "
        "condition strings over existing metrics using all six comparators and int / negative / decimal / exponent "
        "literals, compute_chain_timings, compute_chain_metric(name, values, func), re-picking the previous conditions verbatim (after metrics may have been overwritten), get_metric_dataframe(all | subset=True | conditions). Oracle: a reference model "
        "(plain lists on the independently recomputed wrap partition) checked after every step: every metric has one "
        "entry per cycle and equals func on that cycle's samples (augmented: the cycle plus the run of samples back to the "
        "closest trough, i.e. phase >= 1.5pi, on its left; missing for the first cycle); get_matching_cycles == the "
        "conjunction evaluated in Python; subset_vect numbers the matches in order, -1 elsewhere; chain_vect = maximal runs "
        "of consecutive selected cycles; chain metrics and dataframe rows agree; cache-on and cache-off containers agree "
        "in every metric. Non-trivial: a history with a subset of >= 2 chains and >= 1 metric computed after it.")
ASSUMPTIONS = ["documented rejections are accepted: chain metrics before a subset exists (ValueError), a selection matching "
               "no cycle (ValueError; the history ends there), wrong-length metrics (not stored)",
               "condition strings are generated without spaces, as in the documentation"]

FUNCS = {'mean': np.mean, 'max': np.max, 'sum': np.sum, 'len': len, 'first': lambda v: v[0],
         'range': lambda v: np.max(v) - np.min(v)}
COMPS = {'==': lambda a, b: a == b, '!=': lambda a, b: a != b, '<': lambda a, b: a < b, '<=': lambda a, b: a <= b,
         '>': lambda a, b: a > b, '>=': lambda a, b: a >= b}
LITERALS = ['0', '1', '2', '3', '5', '-1', '-2', '0.5', '2.5', '-0.25', '1e0', '2e1', '5e-1', '-1e0', '1.5e1', '10', '40',
            'q25', 'q50', 'q75', 'q50e', 'q25e', 'q75e', 'q50', 'q50e', 'q25', 'q50', 'q75', 'q50e', 'q25e', 'q75e', 'q50', 'q50e',
            'q25', 'q50', 'q75', 'q50e', 'q25e', 'q75e', 'q50', 'q50e']   # qNN: that quantile of the metric ('e': exponent form)


@st.composite
def phase_strategy(draw):
    kind = draw(st.sampled_from(['good', 'good', 'synth', 'mixed']))
    if kind == 'good':
        p, _ = draw(gens.monotone_cycles_phase(4, 12, 3, 40, total_max=400))
    elif kind == 'synth':
        p = draw(gens.synth_phase(max_n=300, min_n=20, max_cols=1))[:, 0]
    else:
        a, _ = draw(gens.monotone_cycles_phase(3, 6, 3, 30, total_max=200))
        b = draw(gens.synth_phase(max_n=80, min_n=10, max_cols=1))[:, 0]
        c, _ = draw(gens.monotone_cycles_phase(1, 4, 3, 30, total_max=120))
        p = np.concatenate([a, b, c])
    return p


OPS = st.one_of(
    st.tuples(st.just('metric'), st.integers(0, 3), st.integers(0, 2**31 - 1), st.sampled_from(sorted(FUNCS)),
              st.sampled_from(['cycle', 'cycle', 'augmented'])),
    st.tuples(st.just('add'), st.integers(0, 3), st.integers(0, 2**31 - 1), st.sampled_from([0, 0, 0, 1, -1])),
    st.tuples(st.just('timings')),
    st.tuples(st.just('subset'), st.lists(st.tuples(st.integers(0, 7), st.sampled_from(sorted(COMPS)), st.sampled_from(LITERALS)),
                                           min_size=1, max_size=3)),
    st.tuples(st.just('subset'), st.lists(st.tuples(st.integers(0, 7), st.sampled_from(['<', '<=', '>', '>=', '!=']), st.sampled_from(LITERALS[17:])),
                                           min_size=1, max_size=1)),
    st.tuples(st.just('chain_timings')),
    st.tuples(st.just('chain_metric'), st.integers(0, 2), st.integers(0, 2**31 - 1), st.sampled_from(['mean', 'max', 'sum', 'len', 'first'])),
    st.tuples(st.just('repick')),          # the previous selection's condition strings again, verbatim
    st.tuples(st.just('repick')),
    st.tuples(st.just('dataframe'), st.sampled_from(['all', 'subset', 'conditions']),
              st.tuples(st.integers(0, 7), st.sampled_from(sorted(COMPS)), st.sampled_from(LITERALS))),
)

PREFIX = st.sampled_from([[], [('metric', 0, 5, 'mean', 'cycle')], [('metric', 0, 7, 'mean', 'cycle'), ('timings',)],
                          [('timings',), ('metric', 1, 9, 'max', 'cycle'), ('metric', 0, 3, 'first', 'augmented')]])
case_strategy = st.fixed_dictionaries({'phase': phase_strategy(), 'layout': st.sampled_from(['C', 'C', 'C', 'strided', 'readonly']),
                                       'ops': st.tuples(PREFIX, st.lists(OPS, min_size=1, max_size=10)).map(lambda t: list(t[0]) + t[1])})


def aug_start(phase, a):
    """Start of the augmented cycle beginning at sample a: walk left over samples with phase >= 1.5pi.
    Returns (start, decided) - undecided when a boundary sample sits exactly on 1.5pi, None start if no trough on the left."""
    i = a
    decided = True
    while i > 0 and phase[i - 1] >= 1.5 * np.pi:
        if phase[i - 1] == 1.5 * np.pi:
            decided = False
        i -= 1
    if i == 0:
        return None, decided      # no sample below the trough level anywhere on the left
    return i, decided


def nan_equal(a, b):
    a = np.asarray(a, dtype=float)
    b = np.asarray(b, dtype=float)
    return a.shape == b.shape and np.array_equal(np.isnan(a), np.isnan(b)) and np.array_equal(a[~np.isnan(a)], b[~np.isnan(b)])


def oracle(case, rec):
    import emd
    phase = np.asarray(case['phase'], dtype=float)
    step = 1.5 * np.pi
    if np.any(np.abs(np.abs(np.diff(phase)) - step) <= 1e-12):
        raise Discard('a phase difference equals phase_step exactly')
    segs = refmodel.cycle_partition(phase, step)
    if len(segs) < 2:
        raise Discard('fewer than 2 cycles')
    K = len(segs)
    N = phase.size
    try:
        lay = case.get('layout', 'C')         # the phase held by the containers: an ordinary array, a strided view, read-only
        rec.cls('phase-layout=' + lay)
        cont = {'on': emd.cycles.Cycles(gens.relayout(phase.copy(), lay), use_cache=True),
                'off': emd.cycles.Cycles(gens.relayout(phase.copy(), lay), use_cache=False)}
    except Exception as e:
        raise Violation('C15/Cycles/raises/' + type(e).__name__, repr(e))
    model = {}                      # name -> list of floats (model metrics)
    alt = {}                        # augmented metrics: values under the other (cache-off) segment definition
    undecided = set()               # metric names whose model value is a don't-care somewhere
    model['is_good'] = None         # decided by C13; only cache agreement is checked here
    subset = None                   # model: boolean list
    state = {'after_subset_metrics': 0, 'chains': 0, 'cond_names': set(), 'dirty': False}

    def touched(*names):
        # the subset's conditions are re-evaluated by the table export: once a metric they refer to is
        # overwritten the export legitimately follows the new values, so it is no longer compared with the pick
        if state['cond_names'] & set(names):
            state['dirty'] = True

    def both(label, fn):
        """apply fn to both containers; returns dict of (result, exception-name)."""
        out = {}
        for k, C in cont.items():
            try:
                out[k] = (fn(C), None)
            except Exception as e:
                out[k] = (None, type(e).__name__ + ': ' + str(e)[:200])
        if (out['on'][1] is None) != (out['off'][1] is None):
            raise Violation('C15/%s/cache-on-off-differ-in-raising' % label, 'on: %r off: %r' % (out['on'][1], out['off'][1]))
        return out

    def check_state(where):
        for k, C in cont.items():
            if C.ncycles != K:
                raise Violation('C15/ncycles', '%r vs %d' % (C.ncycles, K))
            for name, vals in C.metrics.items():
                if len(vals) != K:
                    raise Violation('C15/metric-length/%s' % where, "metric '%s' has %d entries for %d cycles (cache %s)" % (name, len(vals), K, k))
                if name in alt and name not in undecided and not nan_equal(vals, model[name]):
                    # augmented metric: the two code paths define the augmented segment differently when the
                    # previous cycle's phase is not monotone; tell that apart from any other disagreement
                    v = np.asarray(vals, dtype=float)
                    A, B = np.asarray(model[name], dtype=float), np.asarray(alt[name], dtype=float)
                    same_def = np.array([nan_equal(A[i:i + 1], B[i:i + 1]) for i in range(K)])
                    if k == 'off' and nan_equal(v[same_def], A[same_def]) and nan_equal(v[~same_def], B[~same_def]):
                        undecided.add(name)      # excluded from further comparison; the search continues behind it
                        rec.soft_violation('C15/augmented-segment-definitions-differ/cache-off',
                                        "metric '%s': cache-off uses the first sample above 1.5pi in the previous cycle, cache-on the run "
                                        "back to the closest trough; got %r, closest-trough definition gives %r" % (name, v.tolist()[:10], A.tolist()[:10]))
                        continue
                if name in model and model[name] is not None and name not in undecided:
                    if not nan_equal(vals, model[name]):
                        raise Violation('C15/metric-value/%s/cache-%s' % (where, k),
                                        "metric '%s': got %r expected %r" % (name, np.asarray(vals).tolist()[:12], list(model[name])[:12]))
            if subset is not None:
                sv = np.full(K, -1)
                sv[np.array(subset, dtype=bool)] = np.arange(sum(subset))
                if not np.array_equal(np.asarray(C.subset_vect), sv):
                    raise Violation('C15/subset_vect', 'got %r expected %r' % (np.asarray(C.subset_vect).tolist(), sv.tolist()))
                chosen = np.where(subset)[0]
                cv = np.zeros(len(chosen), dtype=int)
                for j in range(1, len(chosen)):
                    cv[j] = cv[j - 1] + (chosen[j] != chosen[j - 1] + 1)
                if not np.array_equal(np.asarray(C.chain_vect), cv):
                    raise Violation('C15/chain_vect', 'got %r expected %r' % (np.asarray(C.chain_vect).tolist(), cv.tolist()))
        on, off = cont['on'].metrics, cont['off'].metrics
        if set(on) != set(off):
            raise Violation('C15/cache-on-off/metric-names', '%r vs %r' % (sorted(on), sorted(off)))
        for name in on:
            if name in undecided:
                continue
            if not nan_equal(on[name], off[name]):
                aug = name.startswith('aug')
                raise Violation('C15/cache-on-off/metric-differs/%s/%s' % ('augmented' if aug else 'cycle', where),
                                "metric '%s': cache on %r, cache off %r" % (name, np.asarray(on[name]).tolist()[:12], np.asarray(off[name]).tolist()[:12]))

    def metric_names():
        return sorted(n for n in cont['on'].metrics)

    def eval_conds(conds):
        # metrics hit by the known augmented-definition finding (or sitting on a don't-care boundary) differ
        # between the two containers by construction: conditions are drawn over the others only
        names = [n for n in metric_names() if n not in undecided]
        out = np.ones(K, dtype=bool)
        strs = []
        for (mi, comp, lit) in conds:
            name = names[mi % len(names)]
            vals = np.asarray(cont['on'].metrics[name], dtype=float)
            if lit.startswith('q'):
                fin = vals[np.isfinite(vals)]
                qv = float(np.quantile(fin, int(lit[1:3]) / 100.0)) if fin.size else 0.0
                lit = ('%.3e' % qv) if lit.endswith('e') else ('%.4g' % qv if 'e' not in '%.4g' % qv else '%.6f' % qv)
            strs.append(name + comp + lit)
            with np.errstate(invalid='ignore'):
                out &= COMPS[comp](vals, float(lit))
            rec.cls('comparator ' + comp)
        return strs, out

    check_state('init')
    for step_i, op in enumerate(case['ops']):
        kind = op[0]
        if kind == 'metric':
            _, slot, seed, fname, mode = op
            name = ('aug%d' if mode == 'augmented' else 'm%d') % slot
            vals = np.round(np.random.default_rng(seed).standard_normal(N) * 5, 3)
            if seed % 3 == 0:
                vals = np.round(vals).astype(int)          # integer observations, non-integer statistics
            func = FUNCS[fname]
            res = both('compute_cycle_metric/' + mode, lambda C: C.compute_cycle_metric(name, vals.copy(), func, mode=mode))
            exp = []
            expB = []
            und = False
            for ci, (a, b) in enumerate(segs):
                if mode == 'cycle':
                    exp.append(float(func(vals[a:b])))
                else:
                    s, dec = aug_start(phase, a)
                    und = und or not dec
                    exp.append(np.nan if (s is None or ci == 0) else float(func(vals[s:b])))
                    if ci == 0:
                        expB.append(np.nan)
                    else:
                        pa, pb = segs[ci - 1]
                        above = [i for i in range(pa, pb) if phase[i] > 1.5 * np.pi]
                        expB.append(float(func(vals[above[0]:b])) if above else np.nan)
            if res['on'][1] is not None:
                raise Violation('C15/compute_cycle_metric/raises/%s' % mode, 'on: %s / off: %s' % (res['on'][1], res['off'][1]))
            touched(name)
            model[name] = exp
            alt.pop(name, None)
            if mode == 'augmented':
                alt[name] = expB
            undecided.discard(name)
            if und:
                undecided.add(name)
            if subset is not None:
                state['after_subset_metrics'] += 1
            rec.cls('op metric/' + mode)
        elif kind == 'add':
            _, slot, seed, dlen = op
            name = 'x%d' % slot
            v = np.round(np.random.default_rng(seed).standard_normal(max(K + dlen, 0)) * 3, 2)
            res = both('add_cycle_metric', lambda C: C.add_cycle_metric(name, v.copy()))
            if dlen == 0:
                if res['on'][1] is not None:
                    raise Violation('C15/add_cycle_metric/raises', res['on'][1])
                touched(name)
                model[name] = v.tolist()
                undecided.discard(name)
            else:
                for k, C in cont.items():
                    if name in C.metrics and len(C.metrics[name]) != K:
                        raise Violation('C15/add_cycle_metric/wrong-length-stored', '')
            rec.cls('op add%s' % ('' if dlen == 0 else '/wrong-length'))
        elif kind == 'timings':
            res = both('compute_cycle_timings', lambda C: C.compute_cycle_timings())
            if res['on'][1] is not None:
                raise Violation('C15/compute_cycle_timings/raises', res['on'][1])
            touched('start_sample', 'stop_sample', 'duration')
            model['start_sample'] = [a for a, b in segs]
            model['stop_sample'] = [b - 1 for a, b in segs]
            model['duration'] = [b - a for a, b in segs]
            rec.cls('op timings')
        elif kind in ('subset', 'repick'):
            if kind == 'repick':
                if not state.get('last_strs'):
                    continue
                # same condition strings as the last pick, evaluated against the *current* metrics
                strs = list(state['last_strs'])
                valid = np.ones(K, dtype=bool)
                usable = True
                for c in strs:
                    name = [n for n in metric_names() if c.startswith(n) and c[len(n)] in '=<>!']
                    name = max(name, key=len)
                    comp = c[len(name):len(name) + 2] if c[len(name):len(name) + 2] in COMPS else c[len(name)]
                    lit = c[len(name) + len(comp):]
                    if name in undecided:
                        usable = False
                    with np.errstate(invalid='ignore'):
                        valid &= COMPS[comp](np.asarray(cont['on'].metrics[name], dtype=float), float(lit))
                if not usable:
                    continue
                rec.cls('op repick')
            else:
                strs, valid = eval_conds(op[1])
            for k, C in cont.items():
                try:
                    got = np.asarray(C.get_matching_cycles(list(strs)), dtype=bool)
                except Exception as e:
                    raise Violation('C15/get_matching_cycles/raises/' + type(e).__name__, '%r: %r' % (strs, e))
                if not np.array_equal(got, valid):
                    raise Violation('C15/get_matching_cycles/wrong-selection',
                                    'conditions %r: got %r expected %r' % (strs, got.astype(int).tolist(), valid.astype(int).tolist()))
            if not valid.any() and step_i != len(case['ops']) - 1:
                rec.cls('empty-selection-skipped(not last op)')
                continue            # an empty selection may be rejected and ends the history: only tried as the last op
            res = both('pick_cycle_subset', lambda C: C.pick_cycle_subset(list(strs)))
            state['last_strs'] = list(strs)
            state['cond_names'] = {c.split('=')[0].split('<')[0].split('>')[0].split('!')[0] for c in strs}
            state['dirty'] = 'chain_ind' in state['cond_names']
            if res['on'][1] is not None:
                if not valid.any() and res['on'][1].startswith('ValueError'):
                    rec.cls('empty-selection-rejected')
                    # whatever state the rejected request leaves behind, the pieces must agree with each other: the table of
                    # "the subset" has one row per cycle the subset vector marks as selected
                    for tag, C in cont.items():
                        sv = getattr(C, 'subset_vect', None)
                        if sv is None:
                            continue
                        try:
                            df = C.get_metric_dataframe(subset=True)
                        except Exception:
                            continue
                        nsel = int((np.asarray(sv) >= 0).sum())
                        if len(df) != nsel:
                            raise Violation('C15/after-rejected-selection/table-disagrees-with-subset-vector/cache-' + tag,
                                            '%d rows for %d selected cycles (conditions %r)' % (len(df), nsel, strs))
                    return False            # documented-ish rejection: stop using this pair
                raise Violation('C15/pick_cycle_subset/raises', '%r: %s' % (strs, res['on'][1]))
            subset = valid.tolist()
            chosen = np.where(valid)[0]
            cv = np.zeros(len(chosen), dtype=int)
            for j in range(1, len(chosen)):
                cv[j] = cv[j - 1] + (chosen[j] != chosen[j - 1] + 1)
            ci = np.full(K, -1.0)
            ci[chosen] = cv
            model['chain_ind'] = ci.tolist()
            state['chains'] = int(cv.max()) + 1 if len(cv) else 0
            state['after_subset_metrics'] = 0
            for nm in ('chain_start', 'chain_end', 'chain_len_samples', 'chain_len_cycles', 'chain_position'):
                model.pop(nm, None)
            rec.cls('op subset/chains=%s' % (state['chains'] if state['chains'] < 3 else '3+'))
        elif kind == 'chain_timings':
            res = both('compute_chain_timings', lambda C: C.compute_chain_timings())
            if subset is None:
                if res['on'][1] is None:
                    raise Violation('C15/compute_chain_timings/no-subset-accepted', '')
                if not res['on'][1].startswith('ValueError'):
                    raise Violation('C15/compute_chain_timings/no-subset-raises-other', res['on'][1])
                rec.cls('op chain_timings/rejected-before-subset')
            else:
                if res['on'][1] is not None:
                    raise Violation('C15/compute_chain_timings/raises', res['on'][1])
                chosen = np.where(subset)[0]
                cs, ce, ls, lc, pos = (np.full(K, -1.0) for _ in range(5))
                runs = []
                for c in chosen:
                    if runs and runs[-1][-1] == c - 1:
                        runs[-1].append(c)
                    else:
                        runs.append([c])
                for r in runs:
                    for j, c in enumerate(r):
                        cs[c] = segs[r[0]][0]
                        ce[c] = segs[r[-1]][1] - 1
                        ls[c] = sum(segs[q][1] - segs[q][0] for q in r)
                        lc[c] = len(r)
                        pos[c] = j
                touched('chain_start', 'chain_end', 'chain_len_samples', 'chain_len_cycles', 'chain_position')
                model.update({'chain_start': cs.tolist(), 'chain_end': ce.tolist(), 'chain_len_samples': ls.tolist(),
                              'chain_len_cycles': lc.tolist(), 'chain_position': pos.tolist()})
                state['after_subset_metrics'] += 1
                rec.cls('op chain_timings')
        elif kind == 'chain_metric':
            _, slot, seed, fname = op
            name = 'c%d' % slot
            vals = np.round(np.random.default_rng(seed).standard_normal(N) * 5, 3)
            func = FUNCS[fname]
            res = both('compute_chain_metric', lambda C: C.compute_chain_metric(name, vals.copy(), func))
            if subset is None:
                if res['on'][1] is None:
                    raise Violation('C15/compute_chain_metric/no-subset-accepted', '')
                if not res['on'][1].startswith('ValueError'):
                    raise Violation('C15/compute_chain_metric/no-subset-raises-other', res['on'][1])
                rec.cls('op chain_metric/rejected-before-subset')
            else:
                if res['on'][1] is not None:
                    raise Violation('C15/compute_chain_metric/raises', res['on'][1])
                chosen = np.where(subset)[0]
                exp = np.full(K, np.nan)
                runs = []
                for c in chosen:
                    if runs and runs[-1][-1] == c - 1:
                        runs[-1].append(c)
                    else:
                        runs.append([c])
                for r in runs:
                    v = float(func(np.concatenate([vals[segs[q][0]:segs[q][1]] for q in r])))
                    for c in r:
                        exp[c] = v
                touched(name)
                model[name] = exp.tolist()
                undecided.discard(name)
                state['after_subset_metrics'] += 1
                rec.cls('op chain_metric')
        elif kind == 'dataframe':
            _, which, cond = op
            if which == 'subset' and (subset is None or state['dirty']):
                continue
            if which == 'all':
                kw, sel = {}, np.ones(K, dtype=bool)
            elif which == 'subset':
                kw, sel = {'subset': True}, np.array(subset, dtype=bool)
            else:
                strs, sel = eval_conds([cond])
                kw = {'conditions': list(strs)}
            res = both('get_metric_dataframe', lambda C: C.get_metric_dataframe(**kw))
            if res['on'][1] is not None:
                raise Violation('C15/get_metric_dataframe/raises/' + which, res['on'][1])
            for k, C in cont.items():
                df = res[k][0]
                if len(df) != int(sel.sum()):
                    raise Violation('C15/get_metric_dataframe/row-count/' + which, '%d rows for %d matching cycles' % (len(df), int(sel.sum())))
                for name, vals in C.metrics.items():
                    if name not in df.columns:
                        raise Violation('C15/get_metric_dataframe/missing-column', name)
                    if not nan_equal(np.asarray(df[name], dtype=float), np.asarray(vals, dtype=float)[sel]):
                        raise Violation('C15/get_metric_dataframe/values/' + which, "column '%s'" % name)
            rec.cls('op dataframe/' + which)
        check_state('after-' + kind)
    rec.cls('ncycles=%s' % (K if K < 8 else '8+'))
    return state['chains'] >= 2 and state['after_subset_metrics'] >= 1


CLAUSES = [
    Clause('C15.machine', oracle, strategy=case_strategy, quick=3200, thorough=10000, shards=(16, 16),
           nt_rule='a subset with >= 2 chains and >= 1 metric computed after it'),
]
