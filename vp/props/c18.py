"""C18 - sift configurations are faithful, addressable and persistable."""
import os
import copy
import tempfile

import numpy as np
from hypothesis import strategies as st

from ..core import Clause, Violation, Discard
from .. import gens

VARIANTS = ['sift', 'mask_sift', 'ensemble_sift', 'complete_ensemble_sift']

RULE = ("Cases: (defaults) every sift variant x drawn signals: variant(x, **get_config(variant)) vs variant(x) (RNG re-seeded); "
        "(paths) edit histories of up to 15 operations {set, get, delete} on twin configurations - one addressed through "
        "'a/b/c' paths, the other through nested indexing - over existing, new and missing keys at depth 1-3 with values "
        "{int, float, None, bool, str, list, tuple, numpy array, dict}, plus too-deep paths; (roundtrip) configurations "
        "edited with 1-6 valid option changes at any depth (including tuples and numpy arrays) and up to 2 deleted options saved and re-loaded through "
        "both YAML routes (file, text/stream). Oracle: defaults reproduce the plain call; twin stores deep-equal after "
        "every step, reads equal, both raise KeyError together, too-deep slash paths raise ValueError and change nothing; "
        "loaded config has the same sift_type and a store equal modulo tuple->list / array->list, loaded.get_func()(x) == "
        "original.get_func()(x) == variant(x, **original); saving leaves the saved object deep-equal with identical value "
        "types. Non-trivial: (roundtrip) >= 1 nested edit that changes the sift output survives the round trip; (paths) "
        ">= 1 nested set and >= 1 delete or failing access.")
ASSUMPTIONS = ["PyYAML is trusted", "ensemble variants are compared with the global numpy RNG re-seeded before each call"]


def signal(sig):
    return gens.sig_of(sig)


def call(emd, variant, x, seed=11, **kw):
    np.random.seed(seed)
    out = getattr(emd.sift, variant)(x.copy(), **kw)
    return np.asarray(out[0] if isinstance(out, tuple) else out)


def deep_equal(a, b, loose=False):
    """loose: tuples / arrays compare equal to the lists they are saved as."""
    if loose:
        if isinstance(a, (tuple, np.ndarray)):
            a = list(np.asarray(a).tolist()) if isinstance(a, np.ndarray) else list(a)
        if isinstance(b, (tuple, np.ndarray)):
            b = list(np.asarray(b).tolist()) if isinstance(b, np.ndarray) else list(b)
    if isinstance(a, dict):
        return isinstance(b, dict) and list(a.keys()) == list(b.keys()) and all(deep_equal(a[k], b[k], loose) for k in a)
    if isinstance(a, (list, tuple)):
        return type(a) is type(b) and len(a) == len(b) and all(deep_equal(x, y, loose) for x, y in zip(a, b))
    if isinstance(a, np.ndarray):
        return isinstance(b, np.ndarray) and a.shape == b.shape and np.array_equal(a, b)
    if isinstance(a, float) and isinstance(b, float) and a != a and b != b:
        return True
    return type(a) is type(b) and a == b


@st.composite
def default_case(draw):
    n = draw(st.sampled_from([64, 100, 128, 200]))
    sig = {'family': draw(st.sampled_from(['tones', 'amfm', 'noise', 'walk'])), 'n': n,
           'k': draw(st.integers(0, 2**32 - 1)), 'p1': draw(st.floats(0, 1)), 'p2': draw(st.floats(0, 1))}
    return {'variant': draw(st.sampled_from(VARIANTS)), 'sig': sig}


def oracle_defaults(case, rec):
    import emd
    x = signal(case['sig'])
    v = case['variant']
    try:
        conf = emd.sift.get_config(v)
        if conf.sift_type != v:
            raise Violation('C18/defaults/sift_type', repr(conf.sift_type))
        a = call(emd, v, x)
        b = call(emd, v, x, **conf)
        c = conf.get_func()
        np.random.seed(11)
        cc = c(x.copy())
        cc = np.asarray(cc[0] if isinstance(cc, tuple) else cc)
    except Violation:
        raise
    except emd.support.EMDSiftCovergeError:
        raise Discard('convergence error')
    except Exception as e:
        raise Violation('C18/defaults/raises/%s/%s' % (type(e).__name__, v), repr(e))
    if a.shape != b.shape or not np.array_equal(a, b):
        raise Violation('C18/defaults/config-differs-from-plain-call/' + v, '%r vs %r' % (a.shape, b.shape))
    if cc.shape != a.shape or not np.array_equal(cc, a):
        raise Violation('C18/defaults/get_func-differs-from-plain-call/' + v, '')
    rec.cls('variant=' + v)
    return True


# ----------------------------------------------------------------------------
# path addressing (twin configs)

VALUES = st.one_of(st.integers(-5, 50), st.floats(-2, 2, allow_nan=False), st.none(), st.booleans(),
                   st.sampled_from(['sd', 'rilling', 'x']), st.lists(st.integers(0, 5), max_size=3),
                   st.tuples(st.floats(0, 1), st.floats(0, 1)),
                   st.lists(st.floats(0, 1), min_size=1, max_size=3).map(lambda v: np.array(v)),
                   st.fixed_dictionaries({'mode': st.sampled_from(['median', 'reflect']), 'n': st.integers(0, 3)}))
PATHS = ['max_imfs', 'sift_thresh', 'newtop', 'imf_opts', 'imf_opts/sd_thresh', 'imf_opts/stop_method', 'imf_opts/newkey',
         'envelope_opts/interp_method', 'extrema_opts/pad_width', 'extrema_opts/mag_pad_opts', 'extrema_opts/mag_pad_opts/stat_length',
         'extrema_opts/loc_pad_opts/mode', 'extrema_opts/loc_pad_opts/new', 'extrema_opts/new/deeper', 'nope/x', 'imf_opts/nope/x',
         'nope']
DEEP = ['a/b/c/d', 'extrema_opts/mag_pad_opts/stat_length/x', 'imf_opts/a/b/c/d']

path_case = st.fixed_dictionaries({
    'variant': st.sampled_from(VARIANTS),
    'ops': st.lists(st.one_of(st.tuples(st.just('set'), st.sampled_from(PATHS), VALUES),
                              st.tuples(st.just('get'), st.sampled_from(PATHS)),
                              st.tuples(st.just('del'), st.sampled_from(PATHS)),
                              st.tuples(st.sampled_from(['set', 'get', 'del']), st.sampled_from(DEEP), st.just(1))),
                    min_size=1, max_size=15)})


def nested(conf, keys, op, value=None):
    d = conf
    for k in keys[:-1]:
        d = d[k]
    if op == 'set':
        d[keys[-1]] = value
    elif op == 'get':
        return d[keys[-1]]
    else:
        del d[keys[-1]]


def oracle_paths(case, rec):
    import emd
    A = emd.sift.get_config(case['variant'])     # slash paths
    B = emd.sift.get_config(case['variant'])     # nested indexing
    nset = nfail = ndel = 0
    # handles to the option groups, obtained by nested indexing before any edit: a later write through such a handle is a
    # write to the configuration (as it is for a plain nested dict), whatever route the edits in between took
    groups = [g for g in ('imf_opts', 'envelope_opts', 'extrema_opts') if isinstance(B.store.get(g), dict)]
    hA = {g: A[g] for g in groups}
    hB = {g: B[g] for g in groups}
    for step, op in enumerate(case['ops']):
        kind, path = op[0], op[1]
        keys = path.split('/')
        val = copy.deepcopy(op[2]) if kind == 'set' else None
        if len(keys) > 3:
            before = copy.deepcopy(A.store)
            try:
                if kind == 'set':
                    A[path] = val
                elif kind == 'get':
                    A[path]
                else:
                    del A[path]
            except ValueError:
                pass
            except Exception as e:
                raise Violation('C18/paths/too-deep-path-raises-%s' % type(e).__name__, '%s %r' % (kind, path))
            else:
                raise Violation('C18/paths/too-deep-path-accepted', '%s %r' % (kind, path))
            if not deep_equal(A.store, before):
                raise Violation('C18/paths/too-deep-path-changed-store', '%s %r' % (kind, path))
            nfail += 1
            continue
        ra = rb = ea = eb = None
        try:
            if kind == 'set':
                A[path] = copy.deepcopy(val)
            elif kind == 'get':
                ra = A[path]
            else:
                del A[path]
        except Exception as e:
            ea = type(e).__name__
        try:
            rb = nested(B, keys, kind, copy.deepcopy(val))
        except Exception as e:
            eb = type(e).__name__
        if (ea is None) != (eb is None):
            raise Violation('C18/paths/%s/one-side-raises/depth%d' % (kind, len(keys)),
                            'step %d %s %r: slash -> %r, nested -> %r' % (step, kind, path, ea, eb))
        if ea is not None:
            nfail += 1
        if kind == 'get' and ea is None and not deep_equal(ra, rb):
            raise Violation('C18/paths/get/different-values/depth%d' % len(keys), '%r: %r vs %r' % (path, ra, rb))
        if not deep_equal(A.store, B.store):
            raise Violation('C18/paths/%s/stores-diverge/depth%d' % (kind, len(keys)),
                            'after step %d %s %r: %r vs %r' % (step, kind, path, A.store, B.store))
        if kind == 'set' and ea is None and len(keys) >= 2:
            nset += 1
        if kind == 'del' and ea is None:
            ndel += 1
    if len(A) != len(B.store) or list(A) != list(B.store):
        raise Violation('C18/paths/mapping-interface', 'len/iter disagree with the store')
    for g in groups:
        try:
            hA[g]['probe_written_through_an_earlier_handle'] = 1
            hB[g]['probe_written_through_an_earlier_handle'] = 1
        except Exception:
            continue
    if not deep_equal(A.store, B.store):
        raise Violation('C18/paths/write-through-an-earlier-handle-lost',
                        'after the same edits, a write through a group handle taken at the start reaches one configuration only: %r vs %r' % (A.store, B.store))
    rec.cls('variant=' + case['variant'])
    return nset >= 1 and (ndel + nfail) >= 1


# ----------------------------------------------------------------------------
# YAML round trips

EDITS = {
    'all': [('max_imfs', [2, 3]), ('imf_opts/sd_thresh', [0.05, 0.3]), ('imf_opts/stop_method', ['rilling', 'fixed']),
            ('imf_opts/rilling_thresh', [(0.1, 0.8, 0.05), (0.2, 0.9, 0.1)]), ('imf_opts/max_iters', [3, 6]),
            ('imf_opts/env_step_size', [0.5]), ('envelope_opts/interp_method', ['pchip', 'mono_pchip']),
            ('extrema_opts/pad_width', [1, 4]), ('extrema_opts/parabolic_extrema', [True]),
            ('extrema_opts/mag_pad_opts/stat_length', [2, 3, (2, 1), np.array([2, 1]), [1, 3], ((2, 1),), [(3, 2)]]), ('sift_thresh', [1e-6]),
            ('imf_opts/rilling_thresh', [np.array([0.1, 0.8, 0.05])])],
    'mask_sift': [('mask_freqs', [np.array([0.3, 0.1, 0.04]), [0.25, 0.08], (0.2, 0.05), 0.3]),
                  ('mask_amp', [np.array([1.0, 0.5, 2.0]), 2]), ('mask_amp_mode', ['ratio_sig', 'abs']), ('nphases', [2, 3]),
                  ('mask_step_factor', [3])],
    'ensemble_sift': [('nensembles', [2, 3]), ('ensemble_noise', [0.1]), ('noise_mode', ['flip'])],
    'complete_ensemble_sift': [('nensembles', [2, 3]), ('ensemble_noise', [0.1]), ('noise_mode', ['flip'])],
}


@st.composite
def rt_case(draw):
    v = draw(st.sampled_from(VARIANTS))
    pool = EDITS['all'] + EDITS.get(v, [])
    idx = draw(st.lists(st.integers(0, len(pool) - 1), min_size=1, max_size=6, unique=True))
    edits = [(pool[i][0], draw(st.sampled_from(pool[i][1]))) for i in idx]
    # deletions: an option removed from the configuration falls back to the function's own default, and must stay removed
    dels = draw(st.lists(st.sampled_from(['extrema_opts/mag_pad_opts/stat_length', 'imf_opts/energy_thresh', 'verbose',
                                          'extrema_opts/parabolic_extrema', 'imf_opts/rilling_thresh', 'extrema_opts/loc_pad_opts',
                                          'sift_thresh']), max_size=2, unique=True))
    edits = edits + [(d, '__delete__') for d in dels if d not in [e[0] for e in edits]]
    n = draw(st.sampled_from([64, 100, 128]))
    sig = {'family': draw(st.sampled_from(['tones', 'amfm', 'noise'])), 'n': n,
           'k': draw(st.integers(0, 2**32 - 1)), 'p1': draw(st.floats(0, 1)), 'p2': draw(st.floats(0, 1))}
    return {'variant': v, 'edits': edits, 'sig': sig}


def oracle_roundtrip(case, rec):
    import emd
    v = case['variant']
    x = signal(case['sig'])
    conf = emd.sift.get_config(v)
    if v.endswith('ensemble_sift'):
        conf['nensembles'] = 2
    conf['max_imfs'] = 3
    for path, val in case['edits']:
        if isinstance(val, str) and val == '__delete__':
            try:
                del conf[path]
            except KeyError:
                pass
            continue
        conf[path] = copy.deepcopy(val)
    if any(isinstance(v_, str) and v_ == '__delete__' for _, v_ in case['edits']):
        rec.cls('with-deleted-options')
    if conf['imf_opts/stop_method'] == 'fixed' and conf['imf_opts/max_iters'] > 20:
        conf['imf_opts/max_iters'] = 4          # 1000 fixed iterations per IMF only burn time
    if v == 'mask_sift' and case['sig']['k'] % 3 == 0:
        conf['mask_amp'] = np.array([1.0, 0.5, 2.0])
        conf['mask_amp_mode'] = ['ratio_sig', 'abs', 'ratio_imf'][case['sig']['k'] % 9 // 3]
        conf['max_imfs'] = 3
    pristine = copy.deepcopy(conf.store)
    try:
        ref = call(emd, v, x, **conf)
        np.random.seed(11)
        gf = conf.get_func()(x.copy())
        gf = np.asarray(gf[0] if isinstance(gf, tuple) else gf)
    except emd.support.EMDSiftCovergeError:
        raise Discard('convergence error')
    except Exception as e:
        raise Discard('edited option set is not a valid call: %s' % type(e).__name__)
    if not deep_equal(conf.store, pristine):
        raise Violation('C18/roundtrip/config-modified-by-the-call/' + v, 'before %r after %r' % (pristine, conf.store))
    if gf.shape != ref.shape or not np.array_equal(gf, ref):
        raise Violation('C18/roundtrip/get_func-differs-from-unpacked-call/' + v, '')
    before = copy.deepcopy(conf.store)
    tmpdir = tempfile.mkdtemp(prefix='c18-', dir='/dev/shm' if os.path.isdir('/dev/shm') else None)
    try:
        for route in ('file', 'text'):
            try:
                if route == 'file':
                    fn = os.path.join(tmpdir, 'conf.yml')
                    conf.to_yaml_file(fn)
                    loaded = emd.sift.SiftConfig.from_yaml_file(fn)
                else:
                    txt = conf.to_yaml_text()
                    loaded = emd.sift.SiftConfig.from_yaml_stream(txt)
            except Exception as e:
                raise Violation('C18/roundtrip/%s/raises/%s' % (route, type(e).__name__), repr(e))
            if not deep_equal(conf.store, before):
                raise Violation('C18/roundtrip/%s/saving-modified-the-config' % route,
                                'before %r after %r' % (before, conf.store))
            if getattr(loaded, 'sift_type', None) != v:
                raise Violation('C18/roundtrip/%s/sift_type-lost' % route, 'got %r' % (getattr(loaded, 'sift_type', None),))
            if not isinstance(loaded.store, dict) or not deep_equal(before, loaded.store, loose=True):
                raise Violation('C18/roundtrip/%s/options-differ' % route, 'saved %r loaded %r' % (before, loaded.store))
            try:
                np.random.seed(11)
                out = loaded.get_func()(x.copy())
                out = np.asarray(out[0] if isinstance(out, tuple) else out)
            except Exception as e:
                raise Violation('C18/roundtrip/%s/loaded-config-not-callable/%s' % (route, type(e).__name__), repr(e))
            if out.shape != ref.shape or not np.array_equal(out, ref):
                raise Violation('C18/roundtrip/%s/loaded-config-behaves-differently' % route, '')
        # the configuration has been saved; it is now edited through nested indexing (the edit reaches the inner dict
        # directly) and saved again: what is read back must be the configuration as it is now
        if isinstance(conf.store.get('imf_opts'), dict):
            newval = 0.0123 if conf['imf_opts'].get('sd_thresh') != 0.0123 else 0.0321
            conf['imf_opts']['sd_thresh'] = newval
            conf['extrema_opts']['pad_width'] = 3 if conf['extrema_opts'].get('pad_width') != 3 else 2
            now = copy.deepcopy(conf.store)
            for route in ('text', 'file'):
                try:
                    if route == 'file':
                        fn = os.path.join(tmpdir, 'conf2.yml')
                        conf.to_yaml_file(fn)
                        again = emd.sift.SiftConfig.from_yaml_file(fn)
                    else:
                        again = emd.sift.SiftConfig.from_yaml_stream(conf.to_yaml_text())
                except Exception as e:
                    raise Violation('C18/roundtrip/%s/second-save-raises/%s' % (route, type(e).__name__), repr(e))
                if not isinstance(again.store, dict) or not deep_equal(now, again.store, loose=True):
                    raise Violation('C18/roundtrip/%s/second-save-after-a-nested-edit-is-stale' % route,
                                    'live %r read back %r' % (now.get('imf_opts'), again.store.get('imf_opts') if isinstance(again.store, dict) else again.store))
    finally:
        import shutil
        shutil.rmtree(tmpdir, ignore_errors=True)
    try:
        dflt = call(emd, v, x, **({'nensembles': 2, 'max_imfs': 3} if v.endswith('ensemble_sift') else {'max_imfs': 3}))
        changes = dflt.shape != ref.shape or not np.array_equal(dflt, ref)
    except Exception:
        changes = True
    nested_edit = any('/' in p for p, _ in case['edits'])
    rec.cls('variant=' + v)
    rec.cls('has-tuple-or-array' if any(isinstance(val, (tuple, np.ndarray)) for _, val in case['edits']) else 'plain-values')
    return nested_edit and changes


CLAUSES = [
    Clause('C18.defaults', oracle_defaults, strategy=default_case(), quick=160, thorough=3000, shards=(8, 16),
           nt_rule='every evaluated (variant, signal) pair'),
    Clause('C18.paths', oracle_paths, strategy=path_case, quick=1600, thorough=40000, shards=(4, 16),
           nt_rule='>= 1 nested set and >= 1 delete or failing access'),
    Clause('C18.roundtrip', oracle_roundtrip, strategy=rt_case(), quick=480, thorough=10000, shards=(16, 16),
           nt_rule='a nested edit that changes the sift output survives both round trips'),
]
