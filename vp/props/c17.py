"""C17 - feature matching returns a valid one-to-one pairing."""
import numpy as np
from hypothesis import strategies as st

from ..core import Clause, Violation

RULE = ("Cases: Hypothesis-drawn feature arrays x [nx x d], y [ny x d] with d in 1..4, nx, ny in 1..200 (small sizes "
        "over-weighted), continuous or small-integer (tie-rich) values, arbitrary row order, K in 1..15, "
        "distance_upper_bound in {inf, moderate, tight}; 1-feature inputs also passed as vectors. Oracle "
        "(validity predicate, many pairings are acceptable): equal-length index lists, indices in range, no x row "
        "twice, no y row twice, every pair within the bound and within the K-th nearest-neighbour distance of its "
        "x row (ties allowed, 1e-9). Non-trivial: >=2 x rows have the same nearest y row.")
ASSUMPTIONS = ["Euclidean distance as used by scipy cKDTree", "finite feature values"]


@st.composite
def case(draw):
    d = draw(st.integers(1, 4))
    nx = draw(st.one_of(st.integers(1, 8), st.integers(1, 40), st.integers(1, 200)))
    ny = draw(st.one_of(st.integers(1, 8), st.integers(1, 40), st.integers(1, 200)))
    k = draw(st.integers(0, 2**32 - 1))
    kind = draw(st.sampled_from(['cont', 'int', 'clustered']))
    rng = np.random.default_rng(k)
    if kind == 'cont':
        x = rng.standard_normal((nx, d))
        y = rng.standard_normal((ny, d))
    elif kind == 'int':
        x = rng.integers(0, 4, (nx, d)).astype(float)
        y = rng.integers(0, 4, (ny, d)).astype(float)
    else:
        c = rng.standard_normal((3, d)) * 3
        x = c[rng.integers(0, 3, nx)] + 0.1 * rng.standard_normal((nx, d))
        y = c[rng.integers(0, 3, ny)] + 0.1 * rng.standard_normal((ny, d))
    K = draw(st.one_of(st.integers(1, 15), st.sampled_from([1, 2, 15])))
    bound = draw(st.sampled_from(['inf', 'moderate', 'tight']))
    return {'x': x, 'y': y, 'K': K, 'bound': bound, 'vector': draw(st.booleans()) and d == 1}


def oracle(case, rec):
    import emd
    x = np.asarray(case['x'], dtype=float)
    y = np.asarray(case['y'], dtype=float)
    K = int(case['K'])
    D = np.sqrt(((x[:, None, :] - y[None, :, :]) ** 2).sum(axis=2))
    if case['bound'] == 'inf':
        bound = np.inf
    elif case['bound'] == 'moderate':
        bound = float(np.median(D)) if D.size else 1.0
    else:
        bound = float(np.quantile(D.min(axis=1), 0.5)) + 1e-9
    xa, ya = (x[:, 0].copy(), y[:, 0].copy()) if case['vector'] else (x.copy(), y.copy())
    ktag = 'K=1' if K == 1 else 'K>1'
    try:
        xi, yi = emd.cycles.kdt_match(xa, ya, K=K, distance_upper_bound=bound)
    except Exception as e:
        raise Violation('C17/kdt_match/raises/%s/%s' % (type(e).__name__, ktag), repr(e))
    xi = np.asarray(xi)
    yi = np.asarray(yi)
    desc = 'nx=%d ny=%d d=%d K=%d bound=%r xi=%r yi=%r' % (x.shape[0], y.shape[0], x.shape[1], K, bound, xi.tolist()[:20], yi.tolist()[:20])
    if xi.ndim != 1 or yi.ndim != 1 or xi.shape != yi.shape:
        raise Violation('C17/kdt_match/lengths', desc)
    if xi.size:
        if not (np.issubdtype(xi.dtype, np.integer) and np.issubdtype(yi.dtype, np.integer)):
            raise Violation('C17/kdt_match/dtype', desc)
        if xi.min() < 0 or xi.max() >= x.shape[0] or yi.min() < 0 or yi.max() >= y.shape[0]:
            raise Violation('C17/kdt_match/index-out-of-range', desc)
        if len(set(xi.tolist())) != xi.size:
            raise Violation('C17/kdt_match/x-row-repeated', desc)
        if len(set(yi.tolist())) != yi.size:
            raise Violation('C17/kdt_match/y-row-repeated/' + ktag, desc)
        for a, b in zip(xi.tolist(), yi.tolist()):
            dist = D[a, b]
            if dist > bound * (1 + 1e-9) + 1e-12:
                raise Violation('C17/kdt_match/beyond-bound', 'pair (%d,%d) at %r; %s' % (a, b, dist, desc))
            row = np.sort(D[a])
            kth = row[min(K, row.size) - 1]
            if dist > kth * (1 + 1e-9) + 1e-12:
                raise Violation('C17/kdt_match/not-among-K-nearest', 'pair (%d,%d) at %r, K-th nearest at %r; %s' % (a, b, dist, kth, desc))
    nearest = D.argmin(axis=1)
    compete = len(set(nearest.tolist())) < len(nearest)
    rec.cls('bound=' + case['bound'])
    rec.cls(ktag)
    rec.cls('matched=%s' % ('0' if xi.size == 0 else 'all' if xi.size == x.shape[0] else 'some'))
    return compete


CLAUSES = [
    Clause('C17.valid', oracle, strategy=case(), quick=3000, thorough=80000, shards=(4, 16),
           nt_rule='>=2 x rows compete for the same nearest y row'),
]
