"""C17 - feature matching returns a valid one-to-one pairing."""
import numpy as np
from hypothesis import strategies as st

from ..core import Clause, Violation

RULE = ("Cases: Hypothesis-drawn feature arrays x [nx x d], y [ny x d] with d in 1..4, nx, ny in 1..200 (small sizes "
        "over-weighted), continuous or small-integer (tie-rich) values, arbitrary row order, K in 1..15, "
        "distance_upper_bound in {inf, moderate, tight, exactly zero}; 1-feature inputs also passed as vectors; (sequence) two calls through the same array objects with the contents replaced in place in between. Oracle "
        "(validity predicate, many pairings are acceptable): equal-length index lists, indices in range, no x row "
        "twice, no y row twice, every pair within the bound and within the K-th nearest-neighbour distance of its "
        "x row (ties allowed, 1e-9). Non-trivial: >=2 x rows have the same nearest y row.")
ASSUMPTIONS = ["Euclidean distance as used by scipy cKDTree", "finite feature values"]


@st.composite
def case(draw):
    d = draw(st.integers(1, 4))
    nx = draw(st.one_of(st.integers(1, 8), st.integers(1, 40), st.integers(1, 200)))
    ny = draw(st.one_of(st.integers(1, 8), st.integers(1, 40), st.integers(1, 200)))
    k = draw(st.integers(0, 2**32 - 1))
    kind = draw(st.sampled_from(['cont', 'int', 'clustered']))
    rng = np.random.default_rng(k)
    if kind == 'cont':
        x = rng.standard_normal((nx, d))
        y = rng.standard_normal((ny, d))
    elif kind == 'int':
        x = rng.integers(0, 4, (nx, d)).astype(float)
        y = rng.integers(0, 4, (ny, d)).astype(float)
    else:
        c = rng.standard_normal((3, d)) * 3
        x = c[rng.integers(0, 3, nx)] + 0.1 * rng.standard_normal((nx, d))
        y = c[rng.integers(0, 3, ny)] + 0.1 * rng.standard_normal((ny, d))
    K = draw(st.one_of(st.integers(1, 15), st.sampled_from([1, 2, 15])))
    bound = draw(st.sampled_from(['inf', 'moderate', 'tight', 'inf', 'moderate', 'tight', 'zero']))
    return {'x': x, 'y': y, 'K': K, 'bound': bound, 'vector': draw(st.booleans()) and d == 1,
            'layout': draw(st.sampled_from(['C', 'C', 'F', 'strided', 'readonly'])), 'dtype': draw(st.sampled_from(['f8', 'f8', 'f4', 'i8', 'i2', 'f8/i8', 'i8/f8', 'f8/f4']))}


def oracle(case, rec):
    import emd
    x = np.asarray(case['x'], dtype=float)
    y = np.asarray(case['y'], dtype=float)
    if case.get('dtype', 'f8') == 'f4':       # single-precision features: distances are taken between the exact stored values
        x = x.astype(np.float32).astype(float)
        y = y.astype(np.float32).astype(float)
    idt = {'i8': np.int64, 'i2': np.int16}.get(case.get('dtype', 'f8'))
    if idt is not None:                        # integer-valued features stored as integers (counts, sample indices)
        x, y = np.round(x * 8), np.round(y * 8)
    mixed = case.get('dtype', 'f8') if '/' in case.get('dtype', 'f8') else None
    if mixed:                                  # the two sets stored differently (a quantised set matched against a float one)
        x, y = x * 8, y * 8
        if mixed.startswith('i8'):
            x = np.round(x)
        if mixed.endswith('i8'):
            y = np.round(y)
        if mixed.endswith('f4'):
            y = y.astype(np.float32).astype(float)
    K = int(case['K'])
    D = np.sqrt(((x[:, None, :] - y[None, :, :]) ** 2).sum(axis=2))
    if case['bound'] == 'inf':
        bound = np.inf
    elif case['bound'] == 'zero':
        bound = [0, 0.0, np.float64(0)][K % 3]          # nothing (except exact duplicates) is within a zero bound
    elif case['bound'] == 'moderate':
        bound = float(np.median(D)) if D.size else 1.0
    else:
        bound = float(np.quantile(D.min(axis=1), 0.5)) + 1e-9
    xa, ya = (x[:, 0].copy(), y[:, 0].copy()) if case['vector'] else (x.copy(), y.copy())
    if case.get('dtype', 'f8') == 'f4':
        xa, ya = xa.astype(np.float32), ya.astype(np.float32)
    if idt is not None:
        xa, ya = xa.astype(idt), ya.astype(idt)
    if mixed:
        T = {'f8': np.float64, 'i8': np.int64, 'f4': np.float32}
        xa, ya = xa.astype(T[mixed.split('/')[0]]), ya.astype(T[mixed.split('/')[1]])
    from .. import gens
    xa, ya = gens.relayout(xa, case.get('layout', 'C')), gens.relayout(ya, case.get('layout', 'C'))
    rec.cls('layout=' + case.get('layout', 'C'))
    rec.cls('dtype=' + case.get('dtype', 'f8'))
    ktag = 'K=1' if K == 1 else 'K>1'
    logged = (x.shape[0] + y.shape[0]) % 4 == 0
    if logged:
        # the same request with the emd logger set up (quiet console level): a valid pairing all the same
        import io
        import contextlib
        from .c20 import reset_logging
        with contextlib.redirect_stdout(io.StringIO()):
            emd.logger.set_up(level='WARNING')
        rec.cls('emd logger set up')
    try:
        xi, yi = emd.cycles.kdt_match(xa, ya, K=K, distance_upper_bound=bound)
    except Exception as e:
        raise Violation('C17/kdt_match/raises/%s/%s' % (type(e).__name__, ktag), repr(e))
    finally:
        if logged:
            reset_logging()
    held = (xi, yi)
    keep = (np.array(xi), np.array(yi))
    try:
        emd.cycles.kdt_match(ya, xa, K=K)            # another matching in between (the two sets swapped)
    except Exception as e:
        raise Violation('C17/kdt_match/raises/%s/second-request' % type(e).__name__, repr(e))
    if not (np.array_equal(np.asarray(held[0]), keep[0]) and np.array_equal(np.asarray(held[1]), keep[1])):
        raise Violation('C17/kdt_match/earlier-result-changed-by-a-later-request', '')
    # the caller offsets the returned indices in place (into a concatenated table, say) and repeats the identical request
    for h in held:
        if isinstance(h, np.ndarray) and h.flags.writeable and h.size:
            h += 1000
    try:
        again = emd.cycles.kdt_match(xa, ya, K=K, distance_upper_bound=bound)
    except Exception as e:
        raise Violation('C17/kdt_match/raises/%s/repeat' % type(e).__name__, repr(e))
    if not (np.array_equal(np.asarray(again[0]), keep[0]) and np.array_equal(np.asarray(again[1]), keep[1])):
        raise Violation('C17/kdt_match/repeated-request-differs-after-the-caller-edited-the-earlier-result', '')
    xi, yi = keep
    xi = np.asarray(xi)
    yi = np.asarray(yi)
    desc = 'nx=%d ny=%d d=%d K=%d bound=%r xi=%r yi=%r' % (x.shape[0], y.shape[0], x.shape[1], K, bound, xi.tolist()[:20], yi.tolist()[:20])
    if xi.ndim != 1 or yi.ndim != 1 or xi.shape != yi.shape:
        raise Violation('C17/kdt_match/lengths', desc)
    if xi.size:
        if not (np.issubdtype(xi.dtype, np.integer) and np.issubdtype(yi.dtype, np.integer)):
            raise Violation('C17/kdt_match/dtype', desc)
        if xi.min() < 0 or xi.max() >= x.shape[0] or yi.min() < 0 or yi.max() >= y.shape[0]:
            raise Violation('C17/kdt_match/index-out-of-range', desc)
        if len(set(xi.tolist())) != xi.size:
            raise Violation('C17/kdt_match/x-row-repeated', desc)
        if len(set(yi.tolist())) != yi.size:
            raise Violation('C17/kdt_match/y-row-repeated/' + ktag, desc)
        for a, b in zip(xi.tolist(), yi.tolist()):
            dist = D[a, b]
            if dist > bound * (1 + 1e-9) + 1e-12:
                raise Violation('C17/kdt_match/beyond-bound', 'pair (%d,%d) at %r; %s' % (a, b, dist, desc))
            row = np.sort(D[a])
            kth = row[min(K, row.size) - 1]
            if dist > kth * (1 + 1e-9) + 1e-12:
                raise Violation('C17/kdt_match/not-among-K-nearest', 'pair (%d,%d) at %r, K-th nearest at %r; %s' % (a, b, dist, kth, desc))
    nearest = D.argmin(axis=1)
    compete = len(set(nearest.tolist())) < len(nearest)
    rec.cls('bound=' + case['bound'])
    rec.cls(ktag)
    rec.cls('matched=%s' % ('0' if xi.size == 0 else 'all' if xi.size == x.shape[0] else 'some'))
    return compete


@st.composite
def seq_case(draw):
    c1 = draw(case())
    k2 = draw(st.integers(0, 2**32 - 1))
    return {'x': c1['x'], 'y': c1['y'], 'K': c1['K'], 'bound': c1['bound'], 'vector': False, 'k2': k2,
            'reuse': draw(st.sampled_from(['y-in-place', 'x-in-place', 'both']))}


def oracle_seq(case, rec):
    """Two matchings through the same array objects, the contents replaced in place in between: each result must be a
    valid pairing of the data it was given (no state may survive from the first call)."""
    import emd
    x = np.ascontiguousarray(case['x'], dtype=float)
    y = np.ascontiguousarray(case['y'], dtype=float)
    rng = np.random.default_rng(case['k2'])
    first = dict(case, x=x.copy(), y=y.copy())
    oracle(first, rec)
    xbuf, ybuf = x.copy(), y.copy()
    emd.cycles.kdt_match(xbuf, ybuf, K=int(case['K']))
    x2 = x.copy()
    y2 = y.copy()
    if case['reuse'] in ('y-in-place', 'both'):
        y2 = rng.permutation(y, axis=0) * (1 + rng.random()) + rng.standard_normal(y.shape[1])
        ybuf[:] = y2
    if case['reuse'] in ('x-in-place', 'both'):
        x2 = rng.permutation(x, axis=0) + 0.5 * rng.standard_normal(x.shape)
        xbuf[:] = x2
    D = np.sqrt(((x2[:, None, :] - y2[None, :, :]) ** 2).sum(axis=2))
    K = int(case['K'])
    xi, yi = emd.cycles.kdt_match(xbuf, ybuf, K=K)
    xi, yi = np.asarray(xi), np.asarray(yi)
    if xi.shape != yi.shape or len(set(xi.tolist())) != xi.size or len(set(yi.tolist())) != yi.size:
        raise Violation('C17/sequence/not-one-to-one', '')
    for a, b in zip(xi.tolist(), yi.tolist()):
        row = np.sort(D[a])
        kth = row[min(K, row.size) - 1]
        if D[a, b] > kth * (1 + 1e-9) + 1e-12:
            raise Violation('C17/sequence/stale-result-after-in-place-change/' + case['reuse'],
                            'pair (%d,%d) at distance %r but the K-th nearest neighbour of that row is at %r' % (a, b, D[a, b], kth))
    fresh = emd.cycles.kdt_match(x2.copy(), y2.copy(), K=K)
    if not (np.array_equal(fresh[0], xi) and np.array_equal(fresh[1], yi)):
        raise Violation('C17/sequence/result-depends-on-earlier-call/' + case['reuse'], '')
    rec.cls('reuse=' + case['reuse'])
    return True


CLAUSES = [
    Clause('C17.sequence', oracle_seq, strategy=seq_case(), quick=800, thorough=20000, shards=(4, 16),
           nt_rule='every evaluated two-call sequence'),
    Clause('C17.valid', oracle, strategy=case(), quick=3000, thorough=80000, shards=(4, 16),
           nt_rule='>=2 x rows compete for the same nearest y row'),
]
