"""C12 - cycle detection partitions the phase series at its phase wraps."""
import numpy as np
from hypothesis import strategies as st

from ..core import Clause, Violation, Discard
from .. import gens, refmodel

RULE = ("Cases: (exhaustive) every phase sequence of length 1..L over the alphabet "
        "{0.1,1.5,3.1,4.7,6.2} (L=6 quick, 8 thorough) x return_good in {False,True}; "
        "(synth) Hypothesis-drawn long phases (2..400/3000 samples, 1-3 columns, variable/noisy/"
        "reversing frequency, C / column-major / strided / read-only layout) x phase_step in {pi/2, pi, 1.5pi, 1.9pi}; (short) element-wise drawn "
        "phases of 1..30 samples. Oracle: wrap positions recomputed as |p[i]-p[i-1]|>phase_step; the "
        "labels must be -1 or 0..K-1 in temporal order, each label exactly one wrap-delimited segment; "
        "with return_good=False and >=1 wrap the labels must equal the partition (every sample "
        "labelled); no wrap => all -1; multi-column input must equal column-wise results; a third of the random cases are preceded, in the same process, by an "
        "all-cycles request with a block validity mask (itself checked: masked segments skipped, the rest numbered consecutively). "
        "Non-trivial: the series has >=1 wrap; distinct by SHA-1 of the encoded case.")
ASSUMPTIONS = ["phases lie in [0, 2pi) (the routine re-wraps larger values itself)",
               "wrap := absolute first difference > phase_step, as documented"]


def check_column(lab, p, step, good, sigbase):
    n = len(p)
    segs = refmodel.cycle_partition(p, step)
    if lab.shape[0] != n:
        raise Violation(sigbase + '/shape', 'labels length %d != %d' % (lab.shape[0], n))
    if not segs:
        if np.any(lab != -1):
            raise Violation(sigbase + '/nowrap-labelled', 'wrap-free series got labels %r' % (lab.tolist(),))
        return segs
    vals = sorted(set(lab.tolist()) - {-1})
    if vals != list(range(len(vals))):
        raise Violation(sigbase + '/labels-not-consecutive', 'labels %r' % (vals,))
    # each label covers exactly one partition segment; temporal order
    seg_of_start = {a: (a, b) for a, b in segs}
    prev_end = -1
    for k in vals:
        idx = np.where(lab == k)[0]
        a, b = idx[0], idx[-1] + 1
        if not np.array_equal(idx, np.arange(a, b)):
            raise Violation(sigbase + '/label-not-contiguous', 'label %d at %r' % (k, idx.tolist()))
        if a < prev_end or (prev_end > a):
            raise Violation(sigbase + '/label-order', 'label %d starts at %d before %d' % (k, a, prev_end))
        prev_end = b
        if seg_of_start.get(a) != (a, b):
            raise Violation(sigbase + '/label-not-a-segment',
                            'label %d covers [%d,%d) but wrap-delimited segments are %r' % (k, a, b, segs[:12]))
    if not good:
        exp = np.zeros(n, dtype=int) - 1
        for j, (a, b) in enumerate(segs):
            exp[a:b] = j
        if not np.array_equal(lab, exp):
            miss = np.where(lab != exp)[0]
            where = 'last-sample' if miss.tolist() == [n - 1] else 'other'
            raise Violation(sigbase + '/all-cycles-not-partition/' + where,
                            'expected %r got %r' % (exp.tolist()[:40], lab.tolist()[:40]))
    return segs


def oracle(case, rec):
    import emd
    p = np.asarray(case['p'], dtype=float)
    step = case.get('step', 1.5 * np.pi)
    good = bool(case['good'])
    p2 = p if p.ndim == 2 else p[:, None]
    kwargs = {} if 'step' not in case else {'phase_step': step}
    tie = 1e-12
    stored = p
    if case.get('pdtype') == 'f4':
        # the phase held in single precision: the partition is that of the exact stored values; numpy compares a float32
        # array with a Python float in single precision, so differences within 1e-5 of the threshold are left undecided
        stored = p.astype(np.float32)
        p = stored.astype(float)
        p2 = p if p.ndim == 2 else p[:, None]
        tie = 1e-5
        if np.any(p >= 2 * np.pi - 1e-6):
            raise Discard('a single-precision phase value rounds up to 2pi')
        rec.cls('phase stored as float32')
    if np.any(np.abs(np.abs(np.diff(p2, axis=0)) - step) <= tie):
        raise Discard('a phase difference equals phase_step exactly (docstring says "minimum value", code uses >)')
    arg = gens.relayout(stored.copy(), case.get('layout', 'C'))
    if case.get('pre'):
        # an earlier, different request in the same process (all cycles with a validity mask): it must be answered
        # correctly itself - masked segments skipped, the others numbered consecutively - and leave nothing behind
        q = p2[:, 0][::-1].copy()
        m = np.ones(q.size, dtype=bool)
        m[q.size // 3: q.size // 3 + max(1, q.size // 5)] = False
        try:
            mm = m.copy()
            pre = np.asarray(emd.cycles.get_cycle_vector(q, return_good=False, mask=mm, **kwargs))[:, 0]
            if not np.array_equal(mm, m):
                raise Violation('C12/get_cycle_vector/mask-modified', 'the validity mask passed in was changed by the call')
            ro = m.copy()
            ro.setflags(write=False)
            pre2 = np.asarray(emd.cycles.get_cycle_vector(q, return_good=False, mask=ro, **kwargs))[:, 0]
            if not np.array_equal(pre, pre2):
                raise Violation('C12/get_cycle_vector/read-only-mask-changes-result', '')
        except Violation:
            raise
        except Exception as e:
            raise Violation('C12/get_cycle_vector/raises/%s/all-cycles-with-mask' % type(e).__name__, repr(e))
        if not np.any(np.abs(np.abs(np.diff(q)) - step) <= 1e-12):
            exp = np.zeros(q.size, dtype=int) - 1
            k = 0
            for a, b in refmodel.cycle_partition(q, step):
                if np.all(m[a:b]):
                    exp[a:b] = k
                    k += 1
            if not np.array_equal(pre, exp):
                raise Violation('C12/get_cycle_vector/all-cycles-with-mask', 'expected %r got %r' % (exp.tolist()[:40], pre.tolist()[:40]))
        rec.cls('after-a-masked-all-cycles-request')
    # "all cycles requested" = any falsy flag (the literal False, a numpy boolean from a comparison, 0), "good cycles" any truthy one
    flag = ([True, np.bool_(True), 1] if good else [False, np.bool_(False), 0, np.False_])[(p2.shape[0] + p2.shape[1]) % (3 if good else 4)]
    rec.cls('return_good=%s' % type(flag).__name__)
    try:
        out = emd.cycles.get_cycle_vector(arg, return_good=flag, **kwargs)
    except Exception as e:
        segs = refmodel.cycle_partition(p2[:, 0], step)
        where = 'wrap-on-last-sample' if segs and segs[-1][1] - segs[-1][0] == 1 else 'other'
        raise Violation('C12/get_cycle_vector/raises/%s/%s' % (type(e).__name__, where), repr(e))
    held = out
    keep = np.array(out)
    try:
        emd.cycles.get_cycle_vector(stored[::-1].copy(), return_good=not good, **kwargs)      # another request in between
    except Exception as e:
        raise Violation('C12/get_cycle_vector/raises/%s/second-request' % type(e).__name__, repr(e))
    if not np.array_equal(np.asarray(held), keep):
        raise Violation('C12/get_cycle_vector/earlier-result-changed-by-a-later-request', '')
    out = np.asarray(out)
    if out.ndim != 2 or out.shape != p2.shape:
        raise Violation('C12/get_cycle_vector/shape', 'out %r for input %r' % (out.shape, p.shape))
    if not np.issubdtype(out.dtype, np.integer):
        raise Violation('C12/get_cycle_vector/dtype', str(out.dtype))
    nwraps = 0
    for c in range(p2.shape[1]):
        segs = check_column(out[:, c], p2[:, c], step, good, 'C12/get_cycle_vector')
        nwraps += max(len(segs) - 1, 0)
        if segs:
            w = [a for a, b in segs[1:]]
            if 1 in w:
                rec.cls('wrap_at_sample_1')
            if (p2.shape[0] - 1) in w:
                rec.cls('wrap_on_last_sample')
            if any(w[i + 1] - w[i] == 1 for i in range(len(w) - 1)):
                rec.cls('adjacent_wraps')
    if p2.shape[1] > 1:
        rec.cls('multicolumn')
        # one validity mask (a vector) shared by all columns: each column must come out as it does alone with that mask
        m = np.ones(p2.shape[0], dtype=bool)
        m[p2.shape[0] // 2: p2.shape[0] // 2 + max(1, p2.shape[0] // 6)] = False
        try:
            both = np.asarray(emd.cycles.get_cycle_vector(stored.copy(), return_good=good, mask=m.copy(), **kwargs))
            for c in range(p2.shape[1]):
                one = np.asarray(emd.cycles.get_cycle_vector(p2[:, c].copy(), return_good=good, mask=m.copy(), **kwargs))[:, 0]
                if both.shape != p2.shape or not np.array_equal(both[:, c], one):
                    raise Violation('C12/get_cycle_vector/column-dependence/with-mask', 'column %d' % c)
        except Violation:
            raise
        except Exception as e:
            raise Violation('C12/get_cycle_vector/raises/%s/multi-column-with-mask' % type(e).__name__, repr(e))
        for c in range(p2.shape[1]):
            single = emd.cycles.get_cycle_vector(p2[:, c].copy(), return_good=good, **kwargs)
            if not np.array_equal(np.asarray(single)[:, 0], out[:, c]):
                raise Violation('C12/get_cycle_vector/column-dependence', 'column %d' % c)
    rec.cls('good' if good else 'all')
    if 'layout' in case:
        rec.cls('layout=' + case['layout'])
    rec.cls('nwraps=%s' % (nwraps if nwraps < 4 else '4+'))
    return nwraps >= 1


def enum_alphabet(tier):
    L = 6 if tier == 'quick' else 8
    for p in gens.alphabet_phases(L):
        yield {'p': p, 'good': False}
        yield {'p': p, 'good': True}


STEPS = [np.pi / 2, np.pi, 1.5 * np.pi, 1.9 * np.pi, 0, 0.0]     # a zero threshold is valid: every change of phase is a wrap


def synth_strategy(max_n):
    return st.fixed_dictionaries({'p': gens.synth_phase(max_n=max_n), 'good': st.booleans(),
                                  'step': st.sampled_from(STEPS), 'layout': st.sampled_from(gens.LAYOUTS),
                                  'pre': st.sampled_from([False, False, True]), 'pdtype': st.sampled_from(['f8', 'f8', 'f4'])})


short_strategy = st.fixed_dictionaries({'p': gens.short_phase(30), 'good': st.booleans(),
                                        'step': st.sampled_from(STEPS), 'pre': st.sampled_from([False, False, True]),
                                        'pdtype': st.sampled_from(['f8', 'f8', 'f4'])})

CLAUSES = [
    Clause('C12.exhaustive', oracle, enumerate=enum_alphabet, quick=None, thorough=None,
           shards=(8, 16), exhaustive=True, nt_rule='>=1 wrap'),
    Clause('C12.synth', oracle, strategy=synth_strategy(600), quick=1600, thorough=40000,
           shards=(4, 16), nt_rule='>=1 wrap'),
    Clause('C12.short', oracle, strategy=short_strategy, quick=2000, thorough=60000,
           shards=(4, 8), nt_rule='>=1 wrap'),
]
