"""C11 - the holospectrum bins energy jointly by carrier and AM frequency."""
import itertools

import numpy as np
from hypothesis import strategies as st

from ..core import Clause, Violation
from .. import gens

RULE = ("Cases: (grid, exhaustive) T in {1,2}, M=K=1 (and M=2,K=1 / M=1,K=2 for T=1): every combination of carrier "
        "frequency over {below, first edge, mid-bins, last edge, above} of edges [1,2,4] and AM frequency over the "
        "same classes of edges2 [0.5,1,2,3] x {energy, amplitude} x squash_time in {False,'sum','mean'}; (random) "
        "Hypothesis arrays T<=60, M<=4, K<=4 with independent carrier / AM bin sets (1..12 bins, linear or log), "
        "amplitudes non-negative (3 in 5 cases), of mixed sign or all negative (second-level 'amplitudes' are whatever the caller passes; the cell sums are signed sums), frequencies snapped to edges with p=0.3 and out-of-range on either axis, arrays handed over C-contiguous / column-major / strided / read-only. Oracle: triple loop "
        "holo[t,j,i] += w[t,m,k] iff f1[t,m] in carrier bin i and f2[t,m,k] in AM bin j (half-open bins); shape "
        "[T x AM bins x carrier bins]; 'sum' == full.sum(0), 'mean' == full.mean(0) (<=1e-12 rel). Non-trivial: "
        ">=1 out-of-range or edge-valued frequency, or carrier and AM bin counts differ.")
ASSUMPTIONS = ["bin edges strictly increasing; finite inputs"]


def brute(f1, f2, a2, e1, e2, mode):
    T, M = f1.shape
    K = f2.shape[2]
    n1, n2 = len(e1) - 1, len(e2) - 1
    w = a2 ** 2 if mode == 'energy' else a2
    H = np.zeros((T, n2, n1))
    for t in range(T):
        for m in range(M):
            ii = [i for i in range(n1) if e1[i] <= f1[t, m] < e1[i + 1]]
            if not ii:
                continue
            for k in range(K):
                jj = [j for j in range(n2) if e2[j] <= f2[t, m, k] < e2[j + 1]]
                if jj:
                    H[t, jj[0], ii[0]] += w[t, m, k]
    return H


def oracle(case, rec):
    import emd
    f1 = np.asarray(case['f1'], dtype=float)
    f2 = np.asarray(case['f2'], dtype=float)
    a2 = np.asarray(case['a2'], dtype=float)
    e1 = np.asarray(case['e1'], dtype=float)
    e2 = np.asarray(case['e2'], dtype=float)
    mode = case['mode']
    adt = case.get('adtype', 'f8')
    if adt != 'f8':
        # amplitudes as stored by the caller: integer counts (scaled and rounded) or single precision; the brute force sums
        # the exact stored values in float64
        a2 = np.round(a2 * case.get('again', 1.0)) if adt[0] == 'i' else a2.astype(np.float32).astype(float)
    if adt in ('f8', 'f4') and case.get('nanout') and case.get('dtype', 'f8') == 'f8':
        # samples whose carrier or AM frequency is out of range contribute nothing - whatever their amplitude, including the
        # NaN that an undefined instantaneous amplitude comes with (the brute force skips them before looking at it)
        oor = ((f1 < e1[0]) | (f1 >= e1[-1]))[:, :, None] | ((f2 < e2[0]) | (f2 >= e2[-1]))
        a2 = a2.copy()
        a2[oor] = [np.nan, np.inf, -np.inf][int(oor.sum()) % 3]
        rec.cls('non-finite amplitude at out-of-range samples')
    astored = a2.astype({'f8': np.float64, 'f4': np.float32, 'i8': np.int64, 'i4': np.int32, 'i2': np.int16}[adt])
    rec.cls('amplitude-dtype=' + adt)
    rt = 1e-4 if adt == 'f4' else 1e-12       # float32 amplitudes: numpy squares and sums them in single precision
    H = brute(f1, f2, a2, e1, e2, mode)
    scale = rt * (1 + np.abs(H).sum())
    outs = {}
    lay = case.get('layout', 'C')
    if case.get('dtype', 'f8') == 'f4':      # single-precision frequencies: the brute force works on the exact stored values
        f1 = f1.astype(np.float32).astype(float)
        f2 = f2.astype(np.float32).astype(float)
        H = brute(f1, f2, a2, e1, e2, mode)
        scale = rt * (1 + np.abs(H).sum())
    rec.cls('dtype=' + case.get('dtype', 'f8'))
    ft_ = np.float32 if case.get('dtype', 'f8') == 'f4' else np.float64
    ins = [gens.relayout(f1.astype(ft_), lay), gens.relayout(f2.astype(ft_), lay), gens.relayout(astored.copy(), lay)]   # what the routine gets
    rec.cls('layout=' + lay)
    ek = list(case.get('ekinds', ['f8', 'f8']))
    rec.cls('edges-held-as=%s/%s' % tuple(ek))

    def E(e, kind):
        if kind == 'int-array':
            return e.astype(np.int64)
        if kind == 'int-list':
            return [int(v) for v in e]
        if kind == 'f4':
            return e.astype(np.float32)
        return e.copy()
    for sq in (False, 'sum', 'mean'):
        try:
            outs[sq] = np.asarray(emd.spectra.holospectrum(ins[0], ins[1], ins[2], E(e1, ek[0]), E(e2, ek[1]), mode=mode, squash_time=sq))
        except Exception as e:
            raise Violation('C11/raises/%s/squash=%s' % (type(e).__name__, sq), repr(e))
    if not all(np.array_equal(x, y, equal_nan=(np.asarray(y).dtype.kind == 'f')) for x, y in zip(ins, (f1.astype(ft_), f2.astype(ft_), astored))):
        raise Violation('C11/input-modified', '')
    # the caller keeps the full [time x AM x carrier] result and asks for another spectrum of the same shape (other amplitudes)
    held = outs[False]
    keep = np.array(held, dtype=float)
    try:
        emd.spectra.holospectrum(ins[0], ins[1], (astored * 2 + 1).astype(astored.dtype), E(e1, ek[0]), E(e2, ek[1]), mode=mode, squash_time=False)
    except Exception as e:
        raise Violation('C11/raises/%s/second-request' % type(e).__name__, repr(e))
    if not np.array_equal(np.asarray(held, dtype=float), keep, equal_nan=True):
        raise Violation('C11/earlier-result-changed-by-a-later-request', 'the full spectrum returned first was overwritten by the next call')
    outs[False] = keep
    exp = {False: H, 'sum': H.sum(axis=0), 'mean': H.mean(axis=0)}
    oor1 = bool(((f1 < e1[0]) | (f1 >= e1[-1])).any())
    oor2 = bool(((f2 < e2[0]) | (f2 >= e2[-1])).any())
    edge = bool(np.isin(f1, e1).any() or np.isin(f2, e2).any())
    tag = ('car-oor' if oor1 else '') + ('am-oor' if oor2 else '') + ('edge' if edge else '') or 'inrange'
    for sq in (False, 'sum', 'mean'):
        if outs[sq].shape != exp[sq].shape:
            raise Violation('C11/shape/squash=%s' % sq, 'got %r expected %r' % (outs[sq].shape, exp[sq].shape))
        if not np.allclose(outs[sq], exp[sq], rtol=rt, atol=scale):
            raise Violation('C11/vs-bruteforce/squash=%s/%s' % (sq, tag),
                            'f1=%r f2=%r e1=%r e2=%r got %r expected %r' % (f1.tolist()[:4], f2.tolist()[:4], e1.tolist()[:6], e2.tolist()[:6],
                                                                            outs[sq].tolist()[:3], exp[sq].tolist()[:3]))
    rec.cls(tag)
    rec.cls('amplitudes=%s' % ('non-negative' if (a2 >= 0).all() else 'signed'))
    rec.cls('mode=' + mode)
    rec.cls('bins_differ' if len(e1) != len(e2) else 'bins_equal')
    return oor1 or oor2 or edge or len(e1) != len(e2)


def enum_grid(tier):
    e1 = np.array([1.0, 2.0, 4.0])
    e2 = np.array([0.5, 1.0, 2.0, 3.0])
    v1 = [0.5, 1.0, 1.5, 2.0, 3.0, 4.0, 5.0]
    v2 = [0.2, 0.5, 0.7, 1.0, 1.5, 2.0, 2.5, 3.0, 3.5]
    for T, M, K in [(1, 1, 1), (2, 1, 1), (1, 2, 1), (1, 1, 2)]:
        u1 = v1 if T * M == 1 else v1[::2] + [1.0]
        u2 = v2 if T * M * K == 1 else v2[1::2] + [0.2]
        for a in itertools.product(u1, repeat=T * M):
            for b in itertools.product(u2, repeat=T * M * K):
                f1 = np.array(a).reshape(T, M)
                f2 = np.array(b).reshape(T, M, K)
                a2 = 1.0 + np.arange(T * M * K, dtype=float).reshape(T, M, K)
                for mode in ('energy', 'amplitude'):
                    yield {'f1': f1, 'f2': f2, 'a2': a2, 'e1': e1, 'e2': e2, 'mode': mode}


@st.composite
def random_case(draw):
    import emd
    T = draw(st.one_of(st.integers(1, 6), st.integers(1, 60)))
    M = draw(st.integers(1, 4))
    K = draw(st.integers(1, 4))
    k = draw(st.integers(0, 2**32 - 1))
    rng = np.random.default_rng(k)

    def bins():
        nb = draw(st.integers(1, 12))
        lo = draw(st.sampled_from([0.5, 1.0, 2.0, 0.0, 0, -2.0]))     # zero and negative first edges are valid bin sets
        hi = lo + draw(st.sampled_from([1.0, 10.0, 30.0]))
        e, _ = emd.spectra.define_hist_bins(lo, hi, nb, scale=draw(st.sampled_from(['linear', 'log'])) if lo > 0 else 'linear')
        e = np.asarray(e, dtype=float)
        kind = draw(st.sampled_from(['f8', 'f8', 'f8', 'int-array', 'int-list', 'f4']))
        if kind.startswith('int'):          # whole-number edges held as an integer array / a list of ints
            lo = int(np.floor(lo))
            e = (lo + draw(st.sampled_from([1, 2, 5])) * np.arange(nb + 1)).astype(float)
            hi = e[-1]
        elif kind == 'f4':
            e32 = e.astype(np.float32).astype(float)
            if np.all(np.diff(e32) > 0):
                e = e32
            else:
                kind = 'f8'
        kinds.append(kind)
        return e, lo, hi
    kinds = []
    e1, lo1, hi1 = bins()
    e2, lo2, hi2 = bins()
    ps = draw(st.sampled_from([0.0, 0.3, 1.0]))

    def vals(shape, e, lo, hi):
        f = lo - 0.3 * (hi - lo) + 1.6 * (hi - lo) * rng.random(shape)
        s = rng.random(shape) < ps
        f[s] = e[rng.integers(0, len(e), int(s.sum()))]
        return f
    return {'f1': vals((T, M), e1, lo1, hi1), 'f2': vals((T, M, K), e2, lo2, hi2),
            'a2': np.round((rng.random((T, M, K)) - draw(st.sampled_from([0.0, 0.0, 0.0, 0.3, 1.0]))) * 3, 4), 'e1': e1, 'e2': e2,
            'mode': draw(st.sampled_from(['energy', 'amplitude'])), 'layout': draw(st.sampled_from(gens.LAYOUTS)),
            'dtype': draw(st.sampled_from(['f8', 'f8', 'f4'])),
            'ekinds': kinds,
            'adtype': draw(st.sampled_from(['f8', 'f8', 'f8', 'i8', 'i4', 'i2', 'f4'])),
            'again': draw(st.sampled_from([1.0, 100.0, 9000.0])), 'nanout': draw(st.sampled_from([False, False, False, True]))}


CLAUSES = [
    Clause('C11.grid', oracle, enumerate=enum_grid, quick=None, thorough=None, shards=(8, 16), exhaustive=True,
           nt_rule='out-of-range/edge-valued frequency on either axis or differing bin counts'),
    Clause('C11.random', oracle, strategy=random_case(), quick=2000, thorough=60000, shards=(4, 16),
           nt_rule='out-of-range/edge-valued frequency on either axis or differing bin counts'),
]
