"""C06 - every sift option takes effect at the stage it configures, in every variant."""
import os
import itertools
import functools

import numpy as np

from hypothesis import strategies as st

from ..core import Clause, Violation, Discard
from .. import gens, refmodel
from ..trace import Trace

RULE = ("Cases: the full finite grid variant in {sift, mask_sift(zc), mask_sift(list), ensemble_sift and complete_ensemble_sift in both noise modes, "
        "sift_second_layer} x IMF options (3 stop rules x step in {1, 0.5} with non-default thresholds) x interp_method "
        "(3) x extrema options {pad 1; pad 4 + parabolic; custom median stat_length 3; defaults} x delivery route "
        "{keyword dicts, **SiftConfig, SiftConfig.get_func(), functools.partial, get_func() taken again after whole option groups were replaced on a configuration that had already produced a partial} x nprocesses in {1, 3} x 1 (quick) / 2 "
        "(thorough) signals of 128 samples, enumerated completely. Oracle (guarded in-tree trace, read from every process): "
        "every get_next_imf call made during the top-level call received exactly the supplied IMF options and the supplied "
        "envelope / extrema options; every interp_envelope / get_padded_extrema call made inside a get_next_imf received the "
        "supplied interp_method / pad width / refinement / pad dicts; at least one record of each stage exists; with "
        "nprocesses > 1 records come from other pids; and the five delivery routes give np.array_equal outputs (RNG "
        "re-seeded); (spawn) 16 (quick) / 48 (thorough) grid points re-run in fresh interpreters whose pools start their workers with the spawn / forkserver start methods, same trace oracle; (reference) Hypothesis signals (incl. mid-record bursts whose extrema need several padding passes) x "
        "option sets incl. custom np.pad magnitude options x route: the first IMFs of the classic / second-layer sift must "
        "equal (1e-9) the pipeline assembled from the independent reference stages run with the same options. "
        "Non-trivial: at least one supplied option differs from its default.")
ASSUMPTIONS = ["what a stage *receives* is observed through the EMD_VERIF_TRACE hook; that a stage *uses* what it receives "
               "is decided by C04 / C05"]

DEF_IMF = {'env_step_size': 1, 'max_iters': 1000, 'stop_method': 'sd', 'sd_thresh': .1, 'rilling_thresh': [0.05, 0.5, 0.05]}
DEF_LOC = {'mode': 'reflect', 'reflect_type': 'odd'}
DEF_MAG = {'mode': 'median', 'stat_length': 1}

IMF_OPTS = [
    {'stop_method': 'sd', 'sd_thresh': 0.25, 'env_step_size': 1},
    {'stop_method': 'sd', 'sd_thresh': 0.05, 'env_step_size': 0.5},
    {'stop_method': 'rilling', 'rilling_thresh': (0.1, 0.8, 0.1), 'env_step_size': 1},
    {'stop_method': 'rilling', 'rilling_thresh': (0.2, 0.9, 0.2), 'env_step_size': 0.5},
    {'stop_method': 'fixed', 'max_iters': 3, 'env_step_size': 1},
    {'stop_method': 'fixed', 'max_iters': 5, 'env_step_size': 0.5},
]
INTERP = ['splrep', 'pchip', 'mono_pchip']
EXTREMA = [
    {'pad_width': 1},
    {'pad_width': 4, 'parabolic_extrema': True},
    {'pad_width': 2, 'mag_pad_opts': {'mode': 'median', 'stat_length': 3}},
    None,
]
VARIANTS = ['sift', 'mask_sift_zc', 'mask_sift_if', 'mask_sift_list', 'ensemble_sift', 'complete_ensemble_sift', 'ensemble_sift_flip',
            'complete_ensemble_sift_flip', 'sift_second_layer']
# 'get_func_rebound': a partial is taken from the configuration first, then whole option groups are replaced on the same
# configuration object (conf['imf_opts'] = {...}) and a partial is taken again - it must carry the options now in force
ROUTES = ['kwargs', 'config', 'get_func', 'partial', 'get_func_rebound']


def norm_extrema(eo):
    eo = dict(eo) if eo else {}
    return {'pad_width': eo.get('pad_width', 2), 'parabolic_extrema': bool(eo.get('parabolic_extrema', False)),
            'loc_pad_opts': dict(eo.get('loc_pad_opts') or DEF_LOC), 'mag_pad_opts': dict(eo.get('mag_pad_opts') or DEF_MAG)}


def norm_imf(o):
    d = dict(DEF_IMF)
    for k, v in (o or {}).items():
        d[k] = list(v) if isinstance(v, tuple) else v
    return d


def enum_grid(tier):
    sigs = [0] if tier == 'quick' else [0, 1]
    for s in sigs:
        for v in VARIANTS:
            for io in range(len(IMF_OPTS)):
                for it in range(len(INTERP)):
                    for xo in range(len(EXTREMA)):
                        for npr in ([1] if v in ('sift', 'sift_second_layer') or (tier == 'quick' and v.endswith('flip')) else [1, 3]):
                            yield {'sig': s, 'variant': v, 'imf': io, 'interp': it, 'extrema': xo, 'nproc': npr}


def signal_of(i):
    return gens.make_signal('tones' if i == 0 else 'amfm', 128, 77 + i, 0.4, 0.6) + 0.05 * gens.make_signal('noise', 128, 5 + i)


def call_variant(emd, variant, route, x, imf_opts, envelope_opts, extrema_opts, nproc, ia):
    S = emd.sift
    extra = {}
    if variant.startswith('mask_sift'):
        func, name = S.mask_sift, 'mask_sift'
        extra = {'max_imfs': 3, 'nprocesses': nproc, 'nphases': 3,
                 'mask_freqs': 'zc' if variant.endswith('zc') else 'if' if variant.endswith('_if') else [0.3, 0.1, 0.03]}
    elif variant == 'sift':
        func, name, extra = S.sift, 'sift', {'max_imfs': 3}
    elif variant.startswith('ensemble_sift'):
        func, name, extra = S.ensemble_sift, 'ensemble_sift', {'max_imfs': 2, 'nprocesses': nproc, 'nensembles': 3}
        if variant.endswith('flip'):
            extra['noise_mode'] = 'flip'
    elif variant.startswith('complete_ensemble_sift'):
        func, name, extra = S.complete_ensemble_sift, 'complete_ensemble_sift', {'max_imfs': 2, 'nprocesses': nproc, 'nensembles': 3}
        if variant.endswith('flip'):
            extra['noise_mode'] = 'flip'
    else:
        func, name, extra = S.sift_second_layer, 'sift', {'max_imfs': 2}
    stage = {}
    if imf_opts is not None:
        stage['imf_opts'] = dict(imf_opts)
    if envelope_opts is not None:
        stage['envelope_opts'] = dict(envelope_opts)
    if extrema_opts is not None:
        stage['extrema_opts'] = {k: (dict(v) if isinstance(v, dict) else v) for k, v in extrema_opts.items()}

    def config():
        conf = S.get_config(name)
        for k, v in extra.items():
            conf[k] = v
        if route == 'get_func_rebound':
            conf.get_func()
            for st, d in stage.items():
                group = dict(conf[st])
                group.update(d)
                conf[st] = group
            return conf
        for st, d in stage.items():
            for k, v in d.items():
                conf['%s/%s' % (st, k)] = v
        return conf

    np.random.seed(12345)
    if variant == 'sift_second_layer':
        if route in ('kwargs', 'partial'):
            args = dict(extra, **stage)
            if route == 'partial':
                return functools.partial(func, sift_args=args)(ia.copy())
            return func(ia.copy(), sift_args=args)
        conf = config()
        if route in ('get_func', 'get_func_rebound'):
            return func(ia.copy(), sift_func=conf.get_func(), sift_args={'max_imfs': extra['max_imfs']})
        return func(ia.copy(), sift_args=conf)
    if route == 'kwargs':
        return func(x.copy(), **extra, **stage)
    if route == 'partial':
        return functools.partial(func, **extra, **stage)(x.copy())
    conf = config()
    if route == 'config':
        return func(x.copy(), **conf)
    return conf.get_func()(x.copy())


def oracle(case, rec):
    import emd
    x = signal_of(case['sig'])
    v = case['variant']
    imf_opts = IMF_OPTS[case['imf']]
    envelope_opts = {'interp_method': INTERP[case['interp']]}
    extrema_opts = EXTREMA[case['extrema']]
    exp_imf = norm_imf(imf_opts)
    exp_ext = norm_extrema(extrema_opts)
    exp_interp = envelope_opts['interp_method']
    ia = None
    if v == 'sift_second_layer':
        ia = np.abs(np.asarray(emd.sift.sift(x.copy(), max_imfs=2))) + 0.1
    outs = {}
    parent = os.getpid()
    for route in ROUTES:
        try:
            with Trace() as tr:
                out = call_variant(emd, v, route, x, imf_opts, envelope_opts, extrema_opts, case['nproc'], ia)
        except emd.support.EMDSiftCovergeError:
            raise Discard('convergence error')
        except Exception as e:
            raise Violation('C06/%s/%s/raises/%s' % (v, route, type(e).__name__), repr(e))
        outs[route] = np.asarray(out[0] if isinstance(out, tuple) else out)
        g = tr.kind('get_next_imf')
        ie = [r for r in tr.kind('interp_envelope') if r['callers'][:1] == ['get_next_imf']]
        pe = [r for r in tr.kind('get_padded_extrema') if r['callers'][:2] == ['interp_envelope', 'get_next_imf']]
        if not g or not ie or not pe:
            raise Violation('C06/%s/%s/stage-never-ran' % (v, route), 'records: %d %d %d' % (len(g), len(ie), len(pe)))
        for r in g:
            site = r['callers'][0] if r['callers'] else '?'
            got = {k: r[k] for k in DEF_IMF}
            if got != exp_imf:
                bad = sorted(k for k in DEF_IMF if got[k] != exp_imf[k])
                raise Violation('C06/%s/imf-options-dropped/via-%s' % (v, site),
                                '%s: get_next_imf (called from %s) received %r, supplied %r' % (route, site, {k: got[k] for k in bad}, {k: exp_imf[k] for k in bad}))
            gi = (r['envelope_opts'] or {}).get('interp_method', 'splrep')
            if gi != exp_interp:
                raise Violation('C06/%s/envelope-options-dropped/via-%s' % (v, site),
                                '%s: get_next_imf (called from %s) received envelope_opts=%r, supplied %r' % (route, site, r['envelope_opts'], envelope_opts))
            if norm_extrema(r['extrema_opts']) != exp_ext:
                raise Violation('C06/%s/extrema-options-dropped/via-%s' % (v, site),
                                '%s: get_next_imf (called from %s) received extrema_opts=%r, supplied %r' % (route, site, r['extrema_opts'], extrema_opts))
        for r in ie:
            if r['interp_method'] != exp_interp or norm_extrema(r['extrema_opts']) != exp_ext:
                raise Violation('C06/%s/interp_envelope-received-other-options' % v,
                                '%s: %r / %r' % (route, r['interp_method'], r['extrema_opts']))
        for r in pe:
            got = norm_extrema({k: r[k] for k in ('pad_width', 'parabolic_extrema', 'loc_pad_opts', 'mag_pad_opts')})
            if got != exp_ext:
                raise Violation('C06/%s/get_padded_extrema-received-other-options' % v, '%s: %r vs %r' % (route, got, exp_ext))
        pids = {r['pid'] for r in g}
        if case['nproc'] > 1 and not (pids - {parent}):
            raise Violation('C06/%s/no-worker-process-records' % v, '')
        if route == 'kwargs':
            rec.cls('worker_pids=%d' % len(pids - {parent}))
    for route in ROUTES[1:]:
        if outs[route].shape != outs['kwargs'].shape or not np.array_equal(outs[route], outs['kwargs']):
            raise Violation('C06/%s/route-changes-result/%s' % (v, route), '')
    rec.cls('variant=' + v)
    rec.cls('nproc=%d' % case['nproc'])
    return exp_imf != norm_imf(None) or exp_interp != 'splrep' or exp_ext != norm_extrema(None)


# ----------------------------------------------------------------------------
# the options must also *govern* the stage: compare with a pipeline assembled from the independent
# reference stages (vp.refmodel) run with the same options

MAG = [None, {'mode': 'median', 'stat_length': 3}, {'mode': 'reflect'}, {'mode': 'mean', 'stat_length': 2}, {'mode': 'edge'},
       {'mode': 'symmetric'},
       # every np.pad mode with a keyword of its own (a keyword that is dropped on the way falls back to np.pad's default)
       {'mode': 'symmetric', 'reflect_type': 'odd'}, {'mode': 'reflect', 'reflect_type': 'odd'},
       {'mode': 'maximum', 'stat_length': 2}, {'mode': 'minimum', 'stat_length': (1, 3)},
       {'mode': 'constant', 'constant_values': 0.25}, {'mode': 'linear_ramp', 'end_values': (0.5, -0.5)},
       {'mode': 'wrap'}]


@st.composite
def ref_case(draw):
    fam = draw(st.sampled_from(['burst', 'burst', 'tones', 'noise', 'levels', 'walk']))
    sig = {'family': fam, 'n': draw(st.sampled_from([24, 40, 64, 100, 160])), 'k': draw(st.integers(0, 2**32 - 1)),
           'p1': draw(st.floats(0, 1)), 'p2': draw(st.floats(0, 1))}
    xo = {'pad_width': draw(st.integers(1, 4)), 'parabolic_extrema': draw(st.booleans())}
    m = draw(st.sampled_from(MAG))
    if m is not None:
        xo['mag_pad_opts'] = m
    return {'sig': sig, 'imf': draw(st.integers(0, len(IMF_OPTS) - 1)), 'interp': draw(st.integers(0, len(INTERP) - 1)),
            'xo': xo, 'route': draw(st.sampled_from(ROUTES)), 'variant': draw(st.sampled_from(['sift', 'sift', 'sift_second_layer']))}


def oracle_reference(case, rec):
    import emd
    x = gens.sig_of(case['sig'])
    imf_opts = IMF_OPTS[case['imf']]
    eo = {'interp_method': INTERP[case['interp']]}
    xo = case['xo']
    v = case['variant']
    ia = np.abs(x)[:, None] + 0.1 if v == 'sift_second_layer' else None
    try:
        out = call_variant(emd, v, case['route'], x, imf_opts, eo, xo, 1, ia)
    except emd.support.EMDSiftCovergeError:
        raise Discard('convergence error')
    except Exception as e:
        try:
            refmodel.ref_extract(x if ia is None else ia[:, 0], envelope_opts=eo, extrema_opts=xo, **imf_opts)
        except Exception:
            raise Discard('the option set is rejected by numpy/scipy in the reference as well')
        raise Violation('C06/reference/%s/raises/%s' % (v, type(e).__name__), repr(e))
    out = np.asarray(out)
    got = out[:, 0, :] if v == 'sift_second_layer' else out
    sig = x if ia is None else ia[:, 0]
    cap = 2 if v == 'sift_second_layer' else 3
    scale = np.abs(sig).max() or 1.0
    res = sig.copy()
    cols = 0
    for j in range(cap):
        try:
            r = refmodel.ref_extract(res, envelope_opts=eo, extrema_opts=xo, hard_cap=1200, ignore_input_ties=(j == 0), **imf_opts)
        except Exception:
            raise Discard('the option set is rejected by numpy/scipy in the reference')
        if r.kind == 'error':
            raise Discard('reference does not converge')
        if j >= got.shape[1]:
            raise Violation('C06/reference/%s/fewer-imfs-than-the-reference-pipeline' % v, '')
        dev = np.abs(got[:, j] - r.imf).max() / scale
        if dev > 1e-9:
            sens = 0.0
            if xo.get('parabolic_extrema'):
                # measured rounding sensitivity: the same extraction under two algebraically equal vertex formulas
                def run():
                    rr = refmodel.ref_extract(res, envelope_opts=eo, extrema_opts=xo, hard_cap=1200, **imf_opts)
                    return rr.imf
                sens = refmodel.rounding_sensitive(run) / scale
            if r.note or r.margin_stop <= 1e-6 or r.margin_tie <= 1e-7 or r.margin_par <= 1e-4 or sens > dev / 1e3:
                raise Discard('mismatch on an ill-conditioned extraction (stop metric at threshold, near-tie, or near-flat '
                              'extremum under parabolic refinement)')
            custom = 'custom-mag-pad' if 'mag_pad_opts' in xo else 'default-pad'
            raise Violation('C06/reference/%s/output-differs-from-reference-pipeline/%s' % (v, custom),
                            'IMF %d rel dev %.3g with imf_opts=%r envelope_opts=%r extrema_opts=%r via %s' % (j, dev, imf_opts, eo, xo, case['route']))
        cols += 1
        res = sig - got[:, :j + 1].sum(axis=1)
        if not r.flag or np.abs(got[:, j]).sum() < 1e-8:
            break
    rec.cls('variant=' + v)
    rec.cls('route=' + case['route'])
    rec.cls('mag_pad=' + (xo.get('mag_pad_opts') or {'mode': 'default'})['mode'])
    return cols >= 1 and ('mag_pad_opts' in xo or xo['pad_width'] != 2 or xo['parabolic_extrema'] or case['interp'] != 0)


# ----------------------------------------------------------------------------
# worker processes that are not forked copies of the parent (spawn / forkserver start methods)

SPAWN_SCRIPT = r'''
import os, sys, json, warnings
warnings.filterwarnings('ignore')
if __name__ == '__main__':
    import multiprocessing as mp
    mp.set_start_method(sys.argv[2])
    sys.path.insert(0, sys.argv[1])
    sys.path.insert(0, sys.argv[3])
    import numpy as np
    import emd
    from vp.props import c06
    from vp.trace import Trace
    spec = json.loads(sys.argv[4])
    x = c06.signal_of(0)
    imf_opts = c06.IMF_OPTS[spec['imf']]
    eo = {'interp_method': c06.INTERP[spec['interp']]}
    xo = c06.EXTREMA[spec['extrema']]
    with Trace() as tr:
        out = c06.call_variant(emd, spec['variant'], spec['route'], x, imf_opts, eo, xo, spec['nproc'], None)
    out = np.asarray(out[0] if isinstance(out, tuple) else out)
    recs = [{k: r[k] for k in list(c06.DEF_IMF) + ['envelope_opts', 'extrema_opts', 'callers', 'pid']} for r in tr.kind('get_next_imf')]
    sys.stdout.write(json.dumps({'parent': os.getpid(), 'records': recs, 'digest': float(np.abs(out).sum()), 'shape': list(out.shape)}))
'''


def enum_spawn(tier):
    variants = ['ensemble_sift', 'complete_ensemble_sift', 'mask_sift_list', 'mask_sift_zc']
    methods = ['spawn', 'forkserver']
    pts = []
    for vi, v in enumerate(variants):
        for mi, m in enumerate(methods):
            for io in ((1, 2) if tier == 'quick' else range(len(IMF_OPTS))):
                pts.append({'variant': v, 'method': m, 'imf': io, 'interp': (io + vi) % 3, 'extrema': (io + mi) % 3,
                            'nproc': 1 + (io + vi + mi) % 2 * 2, 'route': ROUTES[(io + vi) % len(ROUTES)]})
    for p in pts:
        yield p


def oracle_spawn(case, rec):
    """The same trace oracle with workers started by spawn / forkserver: nothing a worker needs may live only in the
    parent's module state."""
    import sys
    import json
    import subprocess
    import tempfile
    from ..core import REPO, VERIF
    with tempfile.NamedTemporaryFile('w', suffix='.py', dir='/dev/shm' if os.path.isdir('/dev/shm') else None, delete=False) as f:
        f.write(SPAWN_SCRIPT)
        script = f.name
    try:
        p = subprocess.run([sys.executable, '-W', 'ignore', script, REPO, case['method'], VERIF, json.dumps(case)],
                           capture_output=True, text=True, timeout=220, env=dict(os.environ, PYTHONPATH=VERIF))
    finally:
        os.unlink(script)
    if p.returncode != 0:
        if 'EMDSiftCovergeError' in p.stderr:
            raise Discard('convergence error')
        raise Violation('C06/spawn/%s/%s/raises' % (case['variant'], case['method']), p.stderr[-600:])
    res = json.loads(p.stdout)
    exp_imf = norm_imf(IMF_OPTS[case['imf']])
    exp_interp = INTERP[case['interp']]
    exp_ext = norm_extrema(EXTREMA[case['extrema']])
    if not res['records']:
        raise Violation('C06/spawn/%s/stage-never-ran' % case['variant'], '')
    workers = set()
    for r in res['records']:
        site = r['callers'][0] if r['callers'] else '?'
        where = 'parent' if r['pid'] == res['parent'] else 'worker'
        workers.add(r['pid'])
        got = {k: r[k] for k in DEF_IMF}
        if got != exp_imf:
            raise Violation('C06/spawn/%s/imf-options-dropped/%s/via-%s' % (case['variant'], where, site),
                            '%s start method: received %r' % (case['method'], {k: got[k] for k in got if got[k] != exp_imf[k]}))
        if (r['envelope_opts'] or {}).get('interp_method', 'splrep') != exp_interp:
            raise Violation('C06/spawn/%s/envelope-options-dropped/%s/via-%s' % (case['variant'], where, site),
                            '%s start method: received %r' % (case['method'], r['envelope_opts']))
        if norm_extrema(r['extrema_opts']) != exp_ext:
            raise Violation('C06/spawn/%s/extrema-options-dropped/%s/via-%s' % (case['variant'], where, site),
                            '%s start method: received %r' % (case['method'], r['extrema_opts']))
    rec.cls('start_method=' + case['method'])
    rec.cls('variant=' + case['variant'])
    rec.cls('worker_pids=%d' % len(workers - {res['parent']}))
    return True


CLAUSES = [
    Clause('C06.spawn', oracle_spawn, enumerate=enum_spawn, quick=None, thorough=None, shards=(16, 16), exhaustive=True,
           nt_rule='every evaluated (variant, start method, option set)'),
    Clause('C06.reference', oracle_reference, strategy=ref_case(), quick=1200, thorough=30000, shards=(16, 16),
           nt_rule='>= 1 IMF compared under a non-default envelope / extrema option'),
    Clause('C06.grid', oracle, enumerate=enum_grid, quick=None, thorough=None, shards=(16, 16), exhaustive=True,
           nt_rule='some supplied option differs from its default'),
]
