"""C16 - sample / cycle / subset / chain index maps are mutually consistent."""
import itertools

import numpy as np
from hypothesis import strategies as st

from ..core import Clause, Violation

RULE = ("Cases: a recording layout (cycle lengths in {1,2,3}, optional unlabelled gaps of -1 before / "
        "between / after cycles) and a boolean selection vector over its cycles. Exhaustive: every layout "
        "with K<=4 (quick) / K<=5 (thorough) cycles x every selection vector of length K; every selection "
        "vector of length 5..9 (quick) / 5..12 (thorough) x 3 fixed layouts; plus Hypothesis instances with "
        "up to 200 cycles. Oracle: set-theoretic definitions on the label vectors: all 12 map_* defined "
        "for every existing index; backward maps equal the exact index sets; forward maps give none "
        "(None or -1) exactly for unlabelled samples / unselected cycles; s in map_X_to_samples("
        "map_sample_to_X(s)); the six project_* put each value (distinct finite values, then values including +-inf, 0, negative and NaN) on exactly the items mapping to it, NaN "
        "elsewhere, also when one cycle-vector object is used for several selections in turn. Non-trivial: >=2 chains or >=1 gap.")
ASSUMPTIONS = ["label vectors are 1-D integer arrays built by the reference model (contiguous cycles, "
               "subset = rank among selected cycles, chain = maximal run of consecutive selected cycles)"]


def build(lengths, gaps, sel):
    parts = []
    for i, ln in enumerate(lengths):
        parts.append(np.full(gaps[i], -1, dtype=int))
        parts.append(np.full(ln, i, dtype=int))
    parts.append(np.full(gaps[len(lengths)], -1, dtype=int))
    cyc = np.concatenate(parts) if parts else np.zeros(0, dtype=int)
    sel = np.asarray(sel, dtype=bool)
    sub = np.full(len(sel), -1, dtype=int)
    sub[sel] = np.arange(sel.sum())
    chosen = np.where(sel)[0]
    chain = np.zeros(len(chosen), dtype=int)
    h = 0
    for j in range(1, len(chosen)):
        if chosen[j] != chosen[j - 1] + 1:
            h += 1
        chain[j] = h
    return cyc, sub, chain


def is_none(v):
    if v is None:
        return True
    a = np.asarray(v)
    return a.size == 1 and a.ravel()[0] == -1


def as_list(v):
    return sorted(int(x) for x in np.atleast_1d(np.asarray(v)).ravel())


def scalar(v):
    a = np.atleast_1d(np.asarray(v)).ravel()
    if a.size != 1:
        raise ValueError('not a single index: %r' % (v,))
    return int(a[0])


def oracle(case, rec):
    import emd
    cs = emd._cycles_support
    lengths, gaps, sel = case['lengths'], case['gaps'], case['sel']
    cyc, sub, chain = build(lengths, gaps, sel)
    N, K, S = len(cyc), len(sub), len(chain)
    H = int(chain.max()) + 1 if S else 0
    # the structures the maps work on, as the library itself builds them from the selection
    try:
        esub = np.asarray(emd.cycles.get_subset_vector(np.asarray(sel, dtype=bool)))
        echain = np.asarray(emd.cycles.get_chain_vector(esub))
    except Exception as e:
        raise Violation('C16/get_subset_vector+get_chain_vector/raises/' + type(e).__name__, repr(e))
    for alt in (np.asarray(sel, dtype=int), np.asarray(sel, dtype=float)):      # 0/1 selections in other dtypes
        try:
            asub = np.asarray(emd.cycles.get_subset_vector(alt))
        except Exception as e:
            raise Violation('C16/get_subset_vector/raises/%s/dtype=%s' % (type(e).__name__, alt.dtype), repr(e))
        if not np.array_equal(asub, sub):
            raise Violation('C16/get_subset_vector/wrong/dtype=%s' % alt.dtype,
                            'selection %r: got %r expected %r' % (list(sel), asub.tolist(), sub.tolist()))
    if not np.array_equal(esub, sub):
        raise Violation('C16/get_subset_vector/wrong', 'selection %r: got %r expected %r' % (list(sel), esub.tolist(), sub.tolist()))
    if not np.array_equal(echain, chain):
        raise Violation('C16/get_chain_vector/wrong', 'selection %r: got %r expected %r' % (list(sel), echain.tolist(), chain.tolist()))
    desc = 'cyc=%r sub=%r chain=%r' % (cyc.tolist()[:60], sub.tolist()[:40], chain.tolist()[:40])

    def call(name, tag, *a):
        try:
            return getattr(cs, name)(*a)
        except Exception as e:
            raise Violation('C16/%s/raises/%s/%s' % (name, type(e).__name__, tag), '%r on %s' % (e, desc))

    def expect_set(name, tag, got, exp):
        try:
            g = as_list(got)
        except Exception as e:
            raise Violation('C16/%s/bad-return/%s' % (name, tag), '%r: %r' % (got, e))
        if got is None or g != sorted(exp):
            raise Violation('C16/%s/wrong-set/%s' % (name, tag), 'got %r expected %r on %s' % (got, sorted(exp), desc))

    def expect_fwd(name, tag, got, exp):
        if exp is None:
            if not is_none(got):
                raise Violation('C16/%s/not-none/%s' % (name, tag), 'got %r expected none on %s' % (got, desc))
        else:
            try:
                ok = (not is_none(got)) and scalar(got) == exp
            except Exception:
                ok = False
            if not ok:
                raise Violation('C16/%s/wrong-value/%s' % (name, tag), 'got %r expected %r on %s' % (got, exp, desc))

    samples_of_cycle = {c: np.where(cyc == c)[0].tolist() for c in range(K)}
    cycle_of_subset = {int(sub[c]): c for c in range(K) if sub[c] >= 0}
    subsets_of_chain = {h: np.where(chain == h)[0].tolist() for h in range(H)}

    # backward maps
    for c in range(K):
        expect_set('map_cycle_to_samples', 'cycle', call('map_cycle_to_samples', 'cycle', cyc.copy(), c), samples_of_cycle[c])
    for j in range(S):
        c = cycle_of_subset[j]
        expect_set('map_subset_to_cycle', 'subset', call('map_subset_to_cycle', 'subset', sub.copy(), j), [c])
        expect_set('map_subset_to_sample', 'subset', call('map_subset_to_sample', 'subset', sub.copy(), cyc.copy(), j),
                   samples_of_cycle[c])
        expect_fwd('map_subset_to_chain', 'subset', call('map_subset_to_chain', 'subset', chain.copy(), j), int(chain[j]))
    for h in range(H):
        subs = subsets_of_chain[h]
        tag = 'single-cycle-chain' if len(subs) == 1 else 'chain'
        expect_set('map_chain_to_subset', tag, call('map_chain_to_subset', tag, chain.copy(), h), subs)
        cycs = [cycle_of_subset[j] for j in subs]
        expect_set('map_chain_to_cycle', tag, call('map_chain_to_cycle', tag, chain.copy(), sub.copy(), h), cycs)
        smp = [s for c in cycs for s in samples_of_cycle[c]]
        expect_set('map_chain_to_samples', tag, call('map_chain_to_samples', tag, chain.copy(), sub.copy(), cyc.copy(), h), smp)
    # forward maps from cycles
    for c in range(K):
        tag = 'selected' if sub[c] >= 0 else 'unselected'
        expect_fwd('map_cycle_to_subset', tag, call('map_cycle_to_subset', tag, sub.copy(), c),
                   int(sub[c]) if sub[c] >= 0 else None)
        expect_fwd('map_cycle_to_chain', tag, call('map_cycle_to_chain', tag, chain.copy(), sub.copy(), c),
                   int(chain[sub[c]]) if sub[c] >= 0 else None)
    # forward maps from samples + round trips
    for s in range(N):
        c = int(cyc[s])
        tag = 'unlabelled' if c < 0 else ('selected' if sub[c] >= 0 else 'unselected')
        expect_fwd('map_sample_to_cycle', tag, call('map_sample_to_cycle', tag, cyc.copy(), s), c if c >= 0 else None)
        j = int(sub[c]) if c >= 0 and sub[c] >= 0 else None
        got_j = call('map_sample_to_subset', tag, sub.copy(), cyc.copy(), s)
        expect_fwd('map_sample_to_subset', tag, got_j, j)
        h = int(chain[j]) if j is not None else None
        got_h = call('map_sample_to_chain', tag, chain.copy(), sub.copy(), cyc.copy(), s)
        expect_fwd('map_sample_to_chain', tag, got_h, h)
        if c >= 0:
            back = call('map_cycle_to_samples', 'roundtrip', cyc.copy(), scalar(call('map_sample_to_cycle', tag, cyc.copy(), s)))
            if s not in as_list(back):
                raise Violation('C16/roundtrip/cycle', 'sample %d on %s' % (s, desc))
        if j is not None:
            back = call('map_subset_to_sample', 'roundtrip', sub.copy(), cyc.copy(), scalar(got_j))
            if s not in as_list(back):
                raise Violation('C16/roundtrip/subset', 'sample %d on %s' % (s, desc))
            back = call('map_chain_to_samples', 'roundtrip', chain.copy(), sub.copy(), cyc.copy(), scalar(got_h))
            if s not in as_list(back):
                raise Violation('C16/roundtrip/chain', 'sample %d on %s' % (s, desc))

    # projections: distinct recognisable values first, then the same with values that code likes to treat specially
    # (+-inf, zero, negative, missing) - a projected value is data, whatever it is
    def special(v, salt):
        v = v.copy()
        for i in range(v.size):
            r = (i * 7 + salt) % 11
            if r < 5:
                v[i] = (np.inf, -np.inf, 0.0, -v[i], np.nan)[r]
        return v

    held = {}
    for vals_kind in ('distinct', 'special'):
        cv = 100.0 + np.arange(K)
        sv = 200.0 + np.arange(S)
        hv = 300.0 + np.arange(H)
        if vals_kind == 'special':
            cv, sv, hv = special(cv, N + K), special(sv, N + K + 3), special(hv, N + K + 6)

        def expect_proj(name, got, exp):
            if vals_kind == 'distinct' and isinstance(got, np.ndarray):
                held.setdefault(name, (got, np.array(got, dtype=float)))     # kept by the caller across the later calls
            got = np.asarray(got, dtype=float)
            if got.shape != exp.shape or not np.array_equal(np.isnan(got), np.isnan(exp)) or \
                    not np.array_equal(got[~np.isnan(exp)], exp[~np.isnan(exp)]):
                raise Violation('C16/%s/wrong-projection%s' % (name, '' if vals_kind == 'distinct' else '/inf-zero-negative-values'),
                                'got %r expected %r on %s' % (got.tolist()[:40], exp.tolist()[:40], desc))

        e = np.full(N, np.nan)
        for s in range(N):
            if cyc[s] >= 0:
                e[s] = cv[cyc[s]]
        expect_proj('project_cycles_to_samples', call('project_cycles_to_samples', 'proj', cv.copy(), cyc.copy()), e)
        # ... and with the cycle vector as the [samples x 1] column that get_cycle_vector returns and Cycles stores
        expect_proj('project_cycles_to_samples', np.asarray(call('project_cycles_to_samples', 'proj', cv.copy(), cyc.copy()[:, None]), dtype=float).reshape(-1), e)
        e = np.full(K, np.nan)
        for c in range(K):
            if sub[c] >= 0:
                e[c] = sv[sub[c]]
        expect_proj('project_subset_to_cycles', call('project_subset_to_cycles', 'proj', sv.copy(), sub.copy()), e)
        e = np.full(N, np.nan)
        for s in range(N):
            if cyc[s] >= 0 and sub[cyc[s]] >= 0:
                e[s] = sv[sub[cyc[s]]]
        expect_proj('project_subset_to_samples', call('project_subset_to_samples', 'proj', sv.copy(), sub.copy(), cyc.copy()), e)
        expect_proj('project_subset_to_samples', np.asarray(call('project_subset_to_samples', 'proj', sv.copy(), sub.copy(), cyc.copy()[:, None]), dtype=float).reshape(-1), e)
        e = np.array([hv[chain[j]] for j in range(S)], dtype=float) if S else np.zeros(0)
        expect_proj('project_chain_to_subset', call('project_chain_to_subset', 'proj', hv.copy(), chain.copy()), e)
        e = np.full(K, np.nan)
        for c in range(K):
            if sub[c] >= 0:
                e[c] = hv[chain[sub[c]]]
        expect_proj('project_chain_to_cycles', call('project_chain_to_cycles', 'proj', hv.copy(), chain.copy(), sub.copy()), e)
        e = np.full(N, np.nan)
        for s in range(N):
            if cyc[s] >= 0 and sub[cyc[s]] >= 0:
                e[s] = hv[chain[sub[cyc[s]]]]
        expect_proj('project_chain_to_samples',
                    call('project_chain_to_samples', 'proj', hv.copy(), chain.copy(), sub.copy(), cyc.copy()), e)
        expect_proj('project_chain_to_samples',
                    np.asarray(call('project_chain_to_samples', 'proj', hv.copy(), chain.copy(), sub.copy(), cyc.copy()[:, None]), dtype=float).reshape(-1), e)

    for name, (raw, snap) in held.items():
        if not np.array_equal(np.asarray(raw, dtype=float), snap, equal_nan=True):
            raise Violation('C16/%s/earlier-result-changed-by-a-later-call' % name,
                            'the array returned by the first projection was overwritten by a later projection of the same shape')
    # the projections again through ONE cycle-vector object with several selections in turn (nothing may be remembered
    # from an earlier call): original selection, a rotated one, the original again
    shared = cyc.copy()
    sel2 = list(sel[1:]) + list(sel[:1])
    for which, s_ in (('first', sel), ('other-selection', sel2), ('first-again', sel)):
        _, sub_, chain_ = build(lengths, gaps, s_)
        S_ = len(chain_)
        H_ = int(chain_.max()) + 1 if S_ else 0
        sv_ = 200.0 + np.arange(S_)
        hv_ = 300.0 + np.arange(H_)
        e1 = np.full(N, np.nan)
        e2 = np.full(N, np.nan)
        for s in range(N):
            if shared[s] >= 0 and sub_[shared[s]] >= 0:
                e1[s] = sv_[sub_[shared[s]]]
                e2[s] = hv_[chain_[sub_[shared[s]]]]
        got1 = call('project_subset_to_samples', 'sequence', sv_.copy(), sub_.copy(), shared)
        got2 = call('project_chain_to_samples', 'sequence', hv_.copy(), chain_.copy(), sub_.copy(), shared)
        for nm, g, e in (('project_subset_to_samples', got1, e1), ('project_chain_to_samples', got2, e2)):
            g = np.asarray(g, dtype=float)
            if g.shape != e.shape or not np.array_equal(np.isnan(g), np.isnan(e)) or not np.array_equal(g[~np.isnan(e)], e[~np.isnan(e)]):
                raise Violation('C16/%s/sequence-on-one-cycle-vector/%s' % (nm, which),
                                'selection %r after %r: got %r expected %r' % (list(s_), list(sel), g.tolist()[:30], e.tolist()[:30]))
    if not np.array_equal(shared, cyc):
        raise Violation('C16/cycle-vector-modified', '')

    ngaps = sum(1 for g in gaps if g > 0)
    rec.cls('chains=%s' % (H if H < 4 else '4+'))
    rec.cls('gaps=%s' % (ngaps if ngaps < 3 else '3+'))
    if any(len(v) == 1 for v in subsets_of_chain.values()):
        rec.cls('has_single_cycle_chain')
    if S == 0:
        rec.cls('empty_subset')
    return H >= 2 or ngaps >= 1


def enum_cases(tier):
    maxK = 4 if tier == 'quick' else 5
    maxsel = 9 if tier == 'quick' else 12
    for K in range(1, maxK + 1):
        for lengths in itertools.product((1, 2, 3), repeat=K):
            for gaps in itertools.product((0, 1), repeat=K + 1):
                for sel in itertools.product((0, 1), repeat=K):
                    yield {'lengths': list(lengths), 'gaps': list(gaps), 'sel': list(sel)}
    for K in range(maxK + 1, maxsel + 1):
        lengths = [(1, 2, 3)[i % 3] for i in range(K)]
        layouts = [[0] * (K + 1), [1] * (K + 1), [i % 2 for i in range(K + 1)]]
        for sel in itertools.product((0, 1), repeat=K):
            for gaps in layouts:
                yield {'lengths': lengths, 'gaps': gaps, 'sel': list(sel)}


@st.composite
def big_case(draw):
    K = draw(st.integers(1, 200))
    k = draw(st.integers(0, 2**32 - 1))
    dens = draw(st.sampled_from([0.1, 0.5, 0.9]))
    gapp = draw(st.sampled_from([0.0, 0.3, 1.0]))
    rng = np.random.default_rng(k)
    lengths = rng.integers(1, 6, K).tolist()
    gaps = (rng.integers(1, 4, K + 1) * (rng.random(K + 1) < gapp)).tolist()
    sel = (rng.random(K) < dens).astype(int).tolist()
    return {'lengths': lengths, 'gaps': gaps, 'sel': sel}


CLAUSES = [
    Clause('C16.exhaustive', oracle, enumerate=enum_cases, quick=None, thorough=None, shards=(16, 16),
           exhaustive=True, nt_rule='>=2 chains or >=1 gap'),
    Clause('C16.large', oracle, strategy=big_case(), quick=160, thorough=4000, shards=(4, 16),
           nt_rule='>=2 chains or >=1 gap'),
]
