"""C08 - ensemble sifts average genuinely independent noise realisations."""
import os
import hashlib

import numpy as np
from hypothesis import strategies as st

from ..core import Clause, Violation, Discard
from .. import gens
from ..trace import Trace

RULE = ("Cases: nensembles 1..8 x nprocesses 1..8 x noise_mode {single, flip} x ensemble_noise {0, 0.05, 0.2, 1} x signals of "
        "256..512 samples (stored as float64 / float32 / int64 / int16) x IMF / envelope / extrema option sets {default, 4 custom, 2 with iteration limits some members cannot meet} x caps {1,2,3} and caps above what the members yield {9,14}, the global numpy RNG seeded with a drawn value before every call; the same grid for "
        "complete_ensemble_sift. Oracle, from the guarded in-tree trace of the per-member worker (member index, pid, the "
        "noise array actually added): (a) one record per member and stage, the members' noise arrays pairwise different "
        "(digest) and pairwise |corr| < 0.5; (b) the output equals the per-IMF mean over members of sift(x +- noise_i, cap) "
        "recomputed in the harness from the traced noise (flip: each member is the mean of its +noise and -noise "
        "decompositions; IMFs present in every member), 1e-12; (c) ensemble_noise=0 equals sift(x, max_imfs=cap), 1e-12; "
        "(d) complete ensemble: every stage's members carry distinct columns of the parent's noise matrix (uncorrelated in the first stage) and the stage's "
        "IMF equals the recomputed member mean. Non-trivial: nprocesses >= 2, nensembles >= 2 and >= 2 worker pids seen.")
ASSUMPTIONS = ["classic sift is the trusted building block for the recomputation (decided by C01-C05)",
               "job-to-worker assignments are whatever the OS/pool produces; they are sampled by repetition and reported",
               "N >= 256 so that |corr| >= 0.5 between independent realisations has probability < 1e-14 per pair"]


@st.composite
def ens_case(draw):
    n = draw(st.sampled_from([256, 300, 400, 512]))
    sig = {'family': draw(st.sampled_from(['tones', 'amfm', 'walk', 'noise'])), 'n': n,
           'k': draw(st.integers(0, 2**32 - 1)), 'p1': draw(st.floats(0, 1)), 'p2': draw(st.floats(0, 1)),
           'dtype': draw(st.sampled_from(['f8', 'f8', 'f8', 'f4', 'i8', 'i2'])),
           'layout': draw(st.sampled_from(['C', 'C', 'C', 'strided', 'readonly']))}
    return {'sig': sig, 'nens': draw(st.integers(1, 8)), 'nproc': draw(st.integers(1, 8)),
            'mode': draw(st.sampled_from(['single', 'flip'])), 'noise': draw(st.sampled_from([0.0, 0.05, 0.2, 1.0])),
            'cap': draw(st.sampled_from([1, 2, 3, 3, 9, 14])), 'seed': draw(st.integers(0, 2**31 - 1)),
            'stage': draw(st.sampled_from([0, 0, 1, 2, 3, 4, 5, 6, 7, 8]))}


# option sets handed to the ensemble routine; a member is the decomposition of x +- noise *with the requested options*
STAGE_OPTS = [
    {},
    {'imf_opts': {'sd_thresh': 0.2}, 'envelope_opts': {'interp_method': 'pchip'},
     'extrema_opts': {'pad_width': 4, 'parabolic_extrema': True}},
    {'extrema_opts': {'pad_width': 1}},
    {'imf_opts': {'stop_method': 'fixed', 'max_iters': 3}},
    {'envelope_opts': {'interp_method': 'mono_pchip'}, 'extrema_opts': {'mag_pad_opts': {'mode': 'mean', 'stat_length': 2}}},
    # a limit some members cannot meet with their noise: the call must then fail as a whole (the documented convergence
    # error) - a result may only come back when every member converged with the noise it was given
    {'imf_opts': {'max_iters': 6, 'sd_thresh': 0.02}},
    {'imf_opts': {'max_iters': 4, 'sd_thresh': 0.05}},
    # a sift threshold that binds (members stop after the first component or two)
    {'sift_thresh': 40.0},
    {'sift_thresh': 150.0, 'envelope_opts': {'interp_method': 'pchip'}},
]


def stage_opts(case):
    import copy
    return copy.deepcopy(STAGE_OPTS[case.get('stage', 0)])


def digest(a):
    return hashlib.sha1(np.ascontiguousarray(a).tobytes()).hexdigest()


def check_distinct(noises, sig, N, level, correlation=True):
    """noises: list of arrays (one per member)."""
    if level == 0:
        return
    ds = [digest(n) for n in noises]
    if len(set(ds)) != len(ds):
        dup = len(ds) - len(set(ds))
        raise Violation(sig + '/members-share-noise', '%d distinct realisations among %d members' % (len(set(ds)), len(ds)))
    if N >= 256 and correlation:
        for i in range(len(noises)):
            for j in range(i + 1, len(noises)):
                c = np.corrcoef(noises[i].ravel(), noises[j].ravel())[0, 1]
                if abs(c) >= 0.5:
                    raise Violation(sig + '/members-noise-correlated', 'members %d,%d corr %.3f' % (i, j, c))


def member_decomposition(emd, X, noise, mode, cap, opts=None):
    import copy
    a = np.asarray(emd.sift.sift(X + noise, max_imfs=cap, **copy.deepcopy(opts or {})))
    if mode == 'single':
        return a
    b = np.asarray(emd.sift.sift(X - noise, max_imfs=cap, **copy.deepcopy(opts or {})))
    c = min(a.shape[1], b.shape[1])
    return (a[:, :c] + b[:, :c]) / 2


def oracle_ensemble(case, rec):
    import emd
    xt = gens.sig_of(case['sig'])        # as stored (float64 / float32 / int64 / int16)
    x = xt.astype(float)
    N = x.size
    rec.cls('dtype=' + case['sig'].get('dtype', 'f8'))
    np.random.seed(case['seed'])
    try:
        with Trace() as tr:
            out = np.asarray(emd.sift.ensemble_sift(gens.arg(xt), nensembles=case['nens'], ensemble_noise=case['noise'],
                                                    noise_mode=case['mode'], nprocesses=case['nproc'], max_imfs=case['cap'],
                                                    **stage_opts(case)))
    except emd.support.EMDSiftCovergeError:
        raise Discard('convergence error')
    except Exception as e:
        raise Violation('C08/ensemble_sift/raises/' + type(e).__name__, repr(e))
    recs = tr.kind('sift_with_noise')
    tag = 'nproc>1' if case['nproc'] > 1 else 'nproc=1'
    if sorted(r['job_ind'] for r in recs) != list(range(case['nens'])):
        raise Violation('C08/ensemble_sift/member-records', 'job indices %r for %d members' % (sorted(r['job_ind'] for r in recs), case['nens']))
    recs.sort(key=lambda r: r['job_ind'])
    noises = [np.asarray(r['noise'], dtype=float).reshape(N, 1) for r in recs]
    for r in recs:
        if not np.array_equal(np.asarray(r['X']).ravel(), x):
            raise Violation('C08/ensemble_sift/member-input-differs-from-signal', '')
    check_distinct(noises, 'C08/ensemble_sift/' + tag, N, case['noise'])
    if out.ndim != 2 or out.shape[0] != N or out.shape[1] > case['cap'] or not np.all(np.isfinite(out)):
        raise Violation('C08/ensemble_sift/shape-or-nonfinite', repr(out.shape))
    scale = np.abs(x).max() or 1.0
    try:
        members = [member_decomposition(emd, x[:, None], nz, case['mode'], case['cap'], stage_opts(case)) for nz in noises]
    except emd.support.EMDSiftCovergeError:
        raise Violation('C08/ensemble_sift/result-returned-although-a-member-does-not-converge-with-its-own-noise',
                        'the decomposition of x + the noise recorded for a member raises the convergence error')
    c = min(m.shape[1] for m in members)
    exp = np.mean([m[:, :c] for m in members], axis=0)
    if out.shape != exp.shape:
        raise Violation('C08/ensemble_sift/column-count', 'got %r expected %r' % (out.shape, exp.shape))
    dev = np.abs(out - exp).max() / scale
    if dev > 1e-12:
        raise Violation('C08/ensemble_sift/not-mean-of-members/%s/%s' % (case['mode'], tag), 'rel dev %.3g' % dev)
    if case['noise'] == 0:
        plain = np.asarray(emd.sift.sift(x.copy(), max_imfs=case['cap'], **stage_opts(case)))
        if plain.shape != out.shape or np.abs(plain - out).max() / scale > 1e-12:
            raise Violation('C08/ensemble_sift/zero-noise-differs-from-classic-sift', '%r vs %r' % (plain.shape, out.shape))
        rec.cls('zero-noise')
    pids = sorted({r['pid'] for r in recs} - {os.getpid()})
    assign = tuple(sorted(collections_count([r['pid'] for r in recs]).values(), reverse=True))
    rec.cls('worker_pids=%d' % len(pids))
    rec.cls('assignment=%s' % (assign,))
    rec.cls('mode=' + case['mode'])
    rec.cls('stage-options=%s' % ('default' if not STAGE_OPTS[case.get('stage', 0)] else 'custom'))
    return case['nproc'] >= 2 and case['nens'] >= 2 and len(pids) >= 2


def collections_count(xs):
    d = {}
    for v in xs:
        d[v] = d.get(v, 0) + 1
    return d


def oracle_complete(case, rec):
    import emd
    xt = gens.sig_of(case['sig'])
    x = xt.astype(float)
    N = x.size
    np.random.seed(case['seed'])
    try:
        with Trace() as tr:
            out = emd.sift.complete_ensemble_sift(gens.arg(xt), nensembles=case['nens'], ensemble_noise=case['noise'],
                                                  noise_mode=case['mode'], nprocesses=case['nproc'], max_imfs=case['cap'],
                                                  **stage_opts(case))
    except emd.support.EMDSiftCovergeError:
        raise Discard('convergence error')
    except Exception as e:
        raise Violation('C08/complete_ensemble_sift/raises/' + type(e).__name__, repr(e))
    imf = np.asarray(out[0])
    recs = tr.kind('sift_with_noise')
    tag = 'nproc>1' if case['nproc'] > 1 else 'nproc=1'
    # group the per-member records into stages by the signal they were given
    stages = {}
    for r in recs:
        stages.setdefault(digest(np.asarray(r['X'], dtype=float)), []).append(r)     # by value, whatever the storage dtype
    if len(stages) != imf.shape[1]:
        # identical residuals in two stages can only happen for degenerate signals
        raise Discard('stages cannot be told apart by their input (%d groups for %d IMFs)' % (len(stages), imf.shape[1]))
    scale = np.abs(x).max() or 1.0
    resid = x.copy()
    for s in range(imf.shape[1]):
        key = digest(resid[:, None])
        if key not in stages:
            raise Violation('C08/complete_ensemble_sift/stage-input-is-not-the-running-residual', 'stage %d' % s)
        rs = sorted(stages[key], key=lambda r: r['job_ind'])
        if [r['job_ind'] for r in rs] != list(range(case['nens'])):
            raise Violation('C08/complete_ensemble_sift/member-records', 'stage %d: %r' % (s, [r['job_ind'] for r in rs]))
        noises = [np.asarray(r['noise'], dtype=float).reshape(N, 1) for r in rs]
        # later stages add the *residues* of the noise columns (slow trends with a common offset), which may well be
        # correlated by chance: independence is asserted on the raw realisations of the first stage, distinctness always
        if s > 0:
            # a noise column that has been decomposed completely leaves an exactly-zero residue: nothing left to add for
            # that member. Distinctness is required among the members that still carry noise.
            live = [nz for nz in noises if np.any(nz)]
            if len(live) < len(noises):
                rec.cls('late stage with exhausted (all-zero) noise columns')
            check_distinct(live, 'C08/complete_ensemble_sift/' + tag, N, case['noise'], correlation=False)
        else:
            check_distinct(noises, 'C08/complete_ensemble_sift/' + tag, N, case['noise'], correlation=True)
        try:
            members = [member_decomposition(emd, resid[:, None], nz, case['mode'], 1, stage_opts(case))[:, 0] for nz in noises]
        except emd.support.EMDSiftCovergeError:
            raise Violation('C08/complete_ensemble_sift/result-returned-although-a-member-does-not-converge-with-its-own-noise',
                            'stage %d: the decomposition of the residual + the noise recorded for a member raises the convergence error' % s)
        exp = np.mean(members, axis=0)
        dev = np.abs(imf[:, s] - exp).max() / scale
        if dev > 1e-12:
            raise Violation('C08/complete_ensemble_sift/stage-imf-not-mean-of-members/%s' % case['mode'], 'stage %d rel dev %.3g' % (s, dev))
        resid = x - imf[:, :s + 1].sum(axis=1)
    pids = sorted({r['pid'] for r in recs} - {os.getpid()})
    rec.cls('worker_pids=%d' % len(pids))
    rec.cls('stages=%d' % imf.shape[1])
    rec.cls('mode=' + case['mode'])
    rec.cls('stage-options=%s' % ('default' if not STAGE_OPTS[case.get('stage', 0)] else 'custom'))
    return case['nproc'] >= 2 and case['nens'] >= 2 and len(pids) >= 2


CLAUSES = [
    Clause('C08.ensemble', oracle_ensemble, strategy=ens_case(), quick=800, thorough=8000, shards=(16, 16),
           nt_rule='nprocesses >= 2, nensembles >= 2 and >= 2 distinct worker pids in the trace'),
    Clause('C08.complete', oracle_complete, strategy=ens_case(), quick=480, thorough=5000, shards=(16, 16),
           nt_rule='nprocesses >= 2, nensembles >= 2 and >= 2 distinct worker pids in the trace'),
]
