"""C20 - logging never changes results and verbosity overrides are temporary."""
import os
import sys
import json
import itertools
import subprocess

import numpy as np
from hypothesis import strategies as st

from ..core import Clause, Violation, Discard, REPO

RULE = ("Cases: call histories over the 21-action alphabet {set_up(level in None/WARNING/DEBUG), set_level(CRITICAL/WARNING/"
        "INFO/DEBUG), disable, enable, sift(verbose in None/CRITICAL/WARNING/INFO/DEBUG) that returns, the same call made to "
        "raise (3-D input), a sift that cannot converge within its iteration limit (verbose None / DEBUG)}: exhaustively every history of length 1..3 (quick) / 1..4 (thorough) from both the never-set-up "
        "and the set-up state; Hypothesis histories up to length 12 that also use set_up(log_file=tmp), mask_sift, "
        "ensemble_sift, complete_ensemble_sift and calls passing `verbose` positionally; and a sample of random histories replayed in genuinely fresh "
        "interpreters (validates the in-process re-creation of the never-set-up state). Oracle: a model of the console "
        "level (None before set-up; INFO after set_up(); the last explicit level otherwise); after every step get_level() "
        "must equal the model; a call's only exception is the one it was built to raise; every returning call's output is "
        "np.array_equal to the baseline computed with logging untouched, and a call that fails with logging untouched (non-convergence) fails with the same error in every logger state. Non-trivial: a history with >= 1 verbosity "
        "override after >= 1 level change (set_up or set_level).")
ASSUMPTIONS = ["the never-set-up state is re-created in-process by restoring the import-time logger configuration "
               "(validated against fresh interpreters by clause C20.fresh)",
               "console output is sent to a null stream while histories run"]

LEVELS = {'CRITICAL': 50, 'WARNING': 30, 'INFO': 20, 'DEBUG': 10}
ALPHABET = ([('set_up', l) for l in (None, 'WARNING', 'DEBUG')] +
            [('set_level', l) for l in ('CRITICAL', 'WARNING', 'INFO', 'DEBUG')] +
            [('disable',), ('enable',)] +
            [('call', v, False, 'sift') for v in (None, 'CRITICAL', 'WARNING', 'INFO', 'DEBUG')] +
            [('call', v, True, 'sift') for v in (None, 'CRITICAL', 'WARNING', 'INFO', 'DEBUG')] +
            [('call', v, False, 'sift-noconv') for v in (None, 'DEBUG')])
# beyond the 19-action alphabet (random histories only): the same calls with `verbose` given positionally
POSITIONAL = [('call', v, r, 'sift-positional') for v in ('CRITICAL', 'WARNING', 'INFO', 'DEBUG') for r in (False, True)]

_state = {}


def signal48():
    t = np.arange(48)
    return np.sin(2 * np.pi * t / 7.3) + 0.5 * np.sin(2 * np.pi * t / 19.0 + 1) + 0.01 * t


def reset_logging():
    """Back to the state right after `import emd`: a single NullHandler, nothing disabled."""
    import logging
    logging.disable(logging.NOTSET)
    lg = logging.getLogger('emd')
    for h in list(lg.handlers):
        lg.removeHandler(h)
        try:
            h.close()
        except Exception:
            pass
    lg.addHandler(logging.NullHandler())
    lg.setLevel(logging.NOTSET)
    lg.propagate = True
    lg.disabled = False
    for name, obj in list(logging.root.manager.loggerDict.items()):
        if name.startswith('emd.') and isinstance(obj, logging.Logger):
            obj.disabled = False
            obj.setLevel(logging.NOTSET)
            obj.propagate = True
            for h in list(obj.handlers):
                obj.removeHandler(h)


class CountingStream:
    """Stand-in for the console: counts what the console handler writes."""

    def __init__(self):
        self.n = 0

    def write(self, s):
        self.n += len(s)
        return len(s)

    def flush(self):
        pass


def variant_call(emd, variant, x, **kw):
    if variant.endswith('-noconv'):
        # an extraction that cannot meet its stopping rule within the iteration limit: whatever the outcome of this call is
        # with logging never set up (the documented convergence error), it is the outcome in every logger state
        kw = dict(kw, imf_opts={'max_iters': 3, 'sd_thresh': 1e-6})
        variant = variant[:-len('-noconv')]
    if variant == 'sift-n11':
        # the record with trailing singleton dimensions (n,1,1): accepted with logging untouched, so accepted in every state
        return emd.sift.sift(x[:, None, None], max_imfs=2, **kw)
    if variant == 'sift-kwdata':
        # the record passed by keyword: whatever this call does with logging untouched, it does in every logger state
        return emd.sift.sift(X=x, max_imfs=2, **kw)
    if variant == 'sift':
        return emd.sift.sift(x, max_imfs=2, **kw)
    if variant == 'sift-positional':
        return emd.sift.sift(x, 1e-8, 2, kw.get('verbose'))
    if variant == 'mask_sift':
        return emd.sift.mask_sift(x, max_imfs=2, mask_freqs=[0.2, 0.08], **kw)
    np.random.seed(7)
    if variant == 'ensemble_sift':
        return emd.sift.ensemble_sift(x, max_imfs=2, nensembles=2, **kw)
    return emd.sift.complete_ensemble_sift(x, max_imfs=2, nensembles=2, **kw)[0]


def baseline(emd, variant):
    key = 'base-' + variant
    if key not in _state:
        reset_logging()
        try:
            _state[key] = np.asarray(variant_call(emd, variant, signal48()))
        except Exception as e:
            _state[key] = ('raises', type(e).__name__)
    return _state[key]


def run_history(emd, start, hist, rec=None, tmpdir=None):
    """Execute the history against the real logger, checking the model after every step."""
    import emd.logger as L
    counter = CountingStream()
    real_stdout = sys.stdout
    sys.stdout = counter
    try:
        bases = {v: baseline(emd, v.replace('-positional', '')) for v in {op[3] for op in hist if op[0] == 'call'}}
        reset_logging()
        model = None
        if start == 'setup':
            L.set_up()
            model = 20
        changed = False
        nontrivial = False
        disabled = False
        x = signal48()
        for i, op in enumerate(hist):
            where = 'before-set-up' if model is None else 'after-set-up'
            if op[0] == 'set_up':
                kw = {}
                if len(op) > 2 and op[2]:
                    kw['log_file'] = os.path.join(tmpdir or '/dev/shm', 'c20-%d.log' % os.getpid())
                try:
                    L.set_up(level=op[1], **kw)
                except Exception as e:
                    raise Violation('C20/set_up/raises/' + type(e).__name__, repr(e))
                model = 20 if op[1] is None else LEVELS[op[1]]
                changed = True
            elif op[0] == 'set_level':
                try:
                    L.set_level(op[1])
                except Exception as e:
                    raise Violation('C20/set_level/raises/%s/%s' % (type(e).__name__, where), repr(e))
                if model is not None:
                    model = LEVELS[op[1]]
                    changed = True
            elif op[0] == 'disable':
                L.disable()
                disabled = True
            elif op[0] == 'enable':
                L.enable()
                disabled = False
            else:
                _, verbose, raises, variant = op
                kw = {} if verbose is None and (i % 2 == 0) else {'verbose': verbose}
                arg = np.zeros((48, 2, 3)) if raises else x.copy()
                otag = 'override' if verbose is not None else 'no-override'
                if verbose is not None and changed:
                    nontrivial = True
                n0 = counter.n
                try:
                    if isinstance(bases[variant], tuple):
                        # the call fails when logging was never set up: it must fail the same way now
                        try:
                            variant_call(emd, variant, arg, **kw)
                            outcome = 'returned'
                        except Exception as e:
                            outcome = type(e).__name__
                        if outcome != bases[variant][1]:
                            raise Violation('C20/outcome-depends-on-logger-state/%s/%s' % (variant, where),
                                            '%s with logging never set up, %s in history %r step %d' % (bases[variant][1], outcome, hist, i))
                        out = None
                    else:
                        out = variant_call(emd, variant, arg, **kw)
                    if raises:
                        raise Violation('C20/raising-call-returned', '')
                    out = np.asarray(out) if out is not None else bases[variant]
                    if not isinstance(out, tuple) and not np.array_equal(out, bases[variant]):
                        raise Violation('C20/result-depends-on-logger-state/%s/%s' % (variant, where),
                                        'history %r step %d' % (hist, i))
                except Violation:
                    raise
                except ValueError as e:
                    if not raises:
                        raise Violation('C20/call-raises/ValueError/%s/%s' % (otag, where), '%r in history %r step %d' % (e, hist, i))
                except Exception as e:
                    raise Violation('C20/call-raises/%s/%s/%s/%s' % (type(e).__name__, otag, where, 'raising-call' if raises else 'returning-call'),
                                    '%r in history %r (start %s) step %d' % (e, hist, start, i))
            if op[0] == 'call' and op[3] == 'sift-positional':
                rec.cls('positional-verbose')    # whether a positional value overrides is not specified; it must not stick
            if op[0] == 'call' and op[3] == 'sift' and model is not None:
                # the override must be in force *during* the call: INFO records (STARTED/COMPLETED) reach the
                # console iff the effective level is <= INFO and logging is not disabled
                eff = LEVELS[op[1]] if op[1] is not None else model
                wrote = counter.n - n0
                if not disabled and eff <= 20 and wrote == 0:
                    raise Violation('C20/override-not-in-force-during-call/silent', 'effective level %d but nothing reached the console; history %r step %d' % (eff, hist, i))
                if (disabled or eff >= 50) and wrote > 0:
                    raise Violation('C20/override-not-in-force-during-call/noisy', 'effective level %d / disabled=%r but %d bytes reached the console; history %r step %d' % (eff, disabled, wrote, hist, i))
            got = L.get_level()
            if got != model:
                after = op[0] if op[0] != 'call' else ('raising-call' if op[2] else 'returning-call') + ('+override' if op[1] else '')
                raise Violation('C20/console-level/after-%s/%s' % (after, where),
                                'get_level()=%r, model %r after step %d of history %r (start %s)' % (got, model, i, hist, start))
        if rec is not None:
            rec.cls('start=' + start)
            rec.cls('len=%d' % len(hist))
        return nontrivial
    finally:
        sys.stdout = real_stdout
        reset_logging()


def oracle(case, rec):
    import emd
    hist = [tuple(op) for op in case['hist']]
    return run_history(emd, case['start'], hist, rec)


def enum_histories(tier):
    D = 3 if tier == 'quick' else 4
    for d in range(1, D + 1):
        for h in itertools.product(ALPHABET, repeat=d):
            yield {'start': 'fresh', 'hist': list(h)}
            yield {'start': 'setup', 'hist': list(h)}


OPS = st.one_of(
    st.sampled_from(ALPHABET),
    st.sampled_from(ALPHABET + POSITIONAL),
    st.tuples(st.just('set_up'), st.sampled_from([None, 'WARNING', 'DEBUG', 'INFO']), st.just(True)),
    st.tuples(st.just('call'), st.sampled_from([None, 'CRITICAL', 'WARNING', 'INFO', 'DEBUG']), st.booleans(),
              st.sampled_from(['sift', 'mask_sift', 'ensemble_sift', 'complete_ensemble_sift'])),
    st.tuples(st.just('call'), st.sampled_from([None, 'CRITICAL', 'INFO', 'DEBUG']), st.just(False),
              st.sampled_from(['sift-noconv', 'mask_sift-noconv', 'ensemble_sift-noconv', 'sift-kwdata', 'sift-n11'])))

random_strategy = st.fixed_dictionaries({'start': st.sampled_from(['fresh', 'setup']),
                                         'hist': st.lists(OPS, min_size=1, max_size=12)})


FRESH_SCRIPT = r'''
import sys, json, warnings, os
warnings.filterwarnings('ignore')
sys.path.insert(0, sys.argv[1])
sys.stdout = open(os.devnull, 'w')
import numpy as np, emd
import emd.logger as L
start, hist = json.loads(sys.argv[2])
t = np.arange(48)
x = np.sin(2*np.pi*t/7.3) + 0.5*np.sin(2*np.pi*t/19.0+1) + 0.01*t
out = []
if start == 'setup':
    L.set_up()
for op in hist:
    err = None
    try:
        if op[0] == 'set_up': L.set_up(level=op[1])
        elif op[0] == 'set_level': L.set_level(op[1])
        elif op[0] == 'disable': L.disable()
        elif op[0] == 'enable': L.enable()
        else:
            arg = np.zeros((48, 2, 3)) if op[2] else x.copy()
            emd.sift.sift(arg, max_imfs=2, verbose=op[1])
    except Exception as e:
        err = type(e).__name__
    out.append([L.get_level(), err])
sys.__stdout__.write(json.dumps(out))
'''


def oracle_fresh(case, rec):
    """Replay the history in a new interpreter and compare with the model (and hence with the in-process emulation)."""
    hist = [list(op[:4]) for op in case['hist'] if not (op[0] == 'call' and op[3] != 'sift') and not (op[0] == 'set_up' and len(op) > 2)]
    if not hist:
        raise Discard('empty after filtering')
    p = subprocess.run([sys.executable, '-W', 'ignore', '-c', FRESH_SCRIPT, REPO, json.dumps([case['start'], hist])],
                       capture_output=True, text=True, timeout=200)
    if p.returncode != 0:
        raise RuntimeError('fresh interpreter failed: ' + p.stderr[-2000:])
    res = json.loads(p.stdout)
    model = 20 if case['start'] == 'setup' else None
    nontrivial = False
    changed = False
    for i, (op, (lvl, err)) in enumerate(zip(hist, res)):
        where = 'before-set-up' if model is None else 'after-set-up'
        if op[0] == 'set_up':
            model = 20 if op[1] is None else LEVELS[op[1]]
            changed = True
        elif op[0] == 'set_level' and model is not None:
            model = LEVELS[op[1]]
            changed = True
        if op[0] == 'call':
            if op[1] is not None and changed:
                nontrivial = True
            exp = 'ValueError' if op[2] else None
            if err != exp:
                raise Violation('C20/fresh/call-raises/%s/%s/%s' % (err, 'override' if op[1] else 'no-override', where),
                                'history %r (start %s) step %d' % (hist, case['start'], i))
        elif err is not None:
            raise Violation('C20/fresh/%s-raises/%s' % (op[0], err), '')
        if lvl != model:
            raise Violation('C20/fresh/console-level/after-%s/%s' % (op[0], where), 'get_level()=%r model %r step %d of %r' % (lvl, model, i, hist))
    rec.cls('start=' + case['start'])
    return nontrivial


CLAUSES = [
    Clause('C20.exhaustive', oracle, enumerate=enum_histories, quick=None, thorough=None, shards=(16, 16), exhaustive=True,
           nt_rule='>= 1 verbosity override after >= 1 level change'),
    Clause('C20.random', oracle, strategy=random_strategy, quick=960, thorough=12000, shards=(16, 16),
           nt_rule='>= 1 verbosity override after >= 1 level change'),
    Clause('C20.fresh', oracle_fresh, strategy=random_strategy, quick=64, thorough=320, shards=(16, 16),
           nt_rule='>= 1 verbosity override after >= 1 level change'),
]
