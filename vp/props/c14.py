"""C14 - per-cycle statistics and phase alignment use exactly each cycle's samples."""
import numpy as np
from hypothesis import strategies as st

from ..core import Clause, Violation, Discard
from .. import gens

TWO_PI = 2 * np.pi

RULE = ("Cases: (stat) label vectors with K<=12 cycles of length 1..20 and -1 gaps anywhere (labels time-ordered, permuted, or re-appearing non-contiguously) x float values x "
        "funcs {mean,max,sum,len,first,range} x value dtype {float,int,bool} x out in {None,'samples'} x cycles given as vector / column; "
        "(stat_object) the same through a Cycles object in cycle and augmented mode, both outputs; (align_modes) phase_align through one IterateCycles object with the mode ('cycle' / 'augmented') changing between calls, each result compared with a fresh iterator's and with the mode's definition; (align) monotone wrapped phases of 2-8 whole cycles of 8..400 samples x quantity g_c(phase) "
        "(linear, sin, cos2, cubic polynomial; optionally a different affine transform per cycle) x npoints "
        "2..64 x interp_kind in {linear,quadratic,cubic} x cycles from the phase / explicit vector / Cycles "
        "object / a shifted labelling whose cycles contain the phase wrap; (bin) phases in [0,2pi) x nbins 2..64 (or the caller's non-uniform bin_edges) x 1-3 value columns x optional weights. Oracle: direct per-label "
        "computation; phase_align column c must equal g_c on the bin-centre grid (<=1e-9 for linear g, "
        "else within a classical interpolation bound on grid points inside the cycle's sampled range); "
        "bin b == mean of samples with e_b<=phase<e_b+1, NaN iff empty, for every b. Non-trivial: (stat) "
        ">=2 cycles of different length, (align) >=2 cycles of different length, (bin) last bin non-empty.")
ASSUMPTIONS = ["interpolation-error tolerances are 4x a classical bound (max|g''| h^2/8 for linear, "
               "max|g''| h^2 for spline kinds), calibrated empirically with >=3x head-room",
               "phase_align checked in mode='cycle' only"]

FUNCS = {
    'mean': np.mean, 'max': np.max, 'min': np.min, 'sum': np.sum, 'len': len,
    'first': lambda v: v[0], 'range': lambda v: v.max() - v.min(),
}


# ----------------------------------------------------------------------------
# (a) get_cycle_stat

@st.composite
def stat_case(draw):
    K = draw(st.integers(0, 12))
    k = draw(st.integers(0, 2**32 - 1))
    gapp = draw(st.sampled_from([0.0, 0.4, 1.0]))
    rng = np.random.default_rng(k)
    parts = [np.full(int(rng.integers(0, 4) * (rng.random() < gapp)), -1)]
    for c in range(K):
        parts.append(np.full(int(rng.integers(1, 21)), c))
        parts.append(np.full(int(rng.integers(0, 4) * (rng.random() < gapp)), -1))
    lab = np.concatenate(parts).astype(int)
    if lab.size == 0:
        lab = np.array([-1])
    order = draw(st.sampled_from(['sorted', 'sorted', 'permuted', 'reappearing']))
    if K >= 2 and order == 'permuted':          # any labelling: cycle numbers need not increase with time
        perm = rng.permutation(K)
        lab = np.where(lab >= 0, perm[np.clip(lab, 0, K - 1)], -1)
    elif K >= 2 and order == 'reappearing':      # ... nor be contiguous: one label comes back later
        a, b = rng.choice(K, 2, replace=False)
        idx = np.where(lab == a)[0]
        lab[idx[len(idx) // 2:]] = b if len(idx) > 1 else a
        if not (lab == a).any():
            lab[idx[0]] = a
    vals = np.round(rng.standard_normal(lab.size) * 10, 3)
    dt = draw(st.sampled_from(['float', 'float', 'int', 'bool', 'float-with-nan']))
    if dt == 'float-with-nan':          # missing observations: a statistic is the function applied to the samples, NaN and all
        vals = vals.copy()
        vals[rng.random(vals.size) < 0.15] = np.nan
    if dt == 'int':
        vals = np.round(vals).astype(int)
    elif dt == 'bool':
        vals = vals > 0
    return {'labels': lab, 'values': vals, 'func': draw(st.sampled_from(sorted(FUNCS))),
            'out': draw(st.sampled_from([None, 'samples'])), 'column': draw(st.booleans()),
            'layout': draw(st.sampled_from(['C', 'C', 'strided', 'readonly']))}


def oracle_stat(case, rec):
    import emd
    lab = np.asarray(case['labels'], dtype=int)
    vals = np.asarray(case['values'])      # float, int or bool observations
    func = FUNCS[case['func']]
    K = int(lab.max()) + 1
    cyc_in = lab.copy()[:, None] if case['column'] else lab.copy()
    try:
        stat = np.array([float(func(vals[lab == c])) for c in range(K)], dtype=float)
    except TypeError:
        raise Discard('the reducing function is not defined for this value dtype (e.g. max-min of booleans)')
    try:
        lay = case.get('layout', 'C')
        got = emd.cycles.get_cycle_stat(gens.relayout(cyc_in, lay), gens.relayout(vals.copy(), lay), out=case['out'], func=func)
    except Exception as e:
        raise Violation('C14/get_cycle_stat/raises/' + type(e).__name__, repr(e))
    got = np.asarray(got, dtype=float)
    if case['out'] is None:
        exp = stat
    else:
        exp = np.full(lab.size, np.nan)
        for c in range(K):
            exp[lab == c] = stat[c]
    if got.shape != exp.shape:
        raise Violation('C14/get_cycle_stat/shape/out=%s' % case['out'], '%r vs %r' % (got.shape, exp.shape))
    if not np.array_equal(np.isnan(got), np.isnan(exp)) or not np.array_equal(got[~np.isnan(exp)], exp[~np.isnan(exp)]):
        raise Violation('C14/get_cycle_stat/value/out=%s' % case['out'],
                        'func %s got %r expected %r labels %r' % (case['func'], got.tolist()[:20], exp.tolist()[:20], lab.tolist()[:60]))
    if K >= 2 and not case['column']:
        # the caller rejects a cycle by relabelling it -1 in the very array it passed before, and asks again
        buf = lab.copy()
        try:
            emd.cycles.get_cycle_stat(buf, vals.copy(), out=case['out'], func=func)
            buf[buf == K - 1] = -1
            second = np.asarray(emd.cycles.get_cycle_stat(buf, vals.copy(), out=case['out'], func=func), dtype=float)
            fresh = np.asarray(emd.cycles.get_cycle_stat(buf.copy(), vals.copy(), out=case['out'], func=func), dtype=float)
        except Exception as e:
            raise Violation('C14/get_cycle_stat/raises/%s/relabelled-array' % type(e).__name__, repr(e))
        if second.shape != fresh.shape or not np.array_equal(second, fresh, equal_nan=True):
            raise Violation('C14/get_cycle_stat/stale-result-for-a-label-array-edited-in-place', '')
    lens = [int((lab == c).sum()) for c in range(K)]
    rec.cls('func=' + case['func'])
    rec.cls('values=' + vals.dtype.kind)
    rec.cls('gaps' if (lab == -1).any() else 'nogaps')
    nn = lab[lab >= 0]
    rec.cls('labels-' + ('time-ordered' if np.all(np.diff(nn) >= 0) else 'not-time-ordered'))
    return K >= 2 and len(set(lens)) >= 2


def scribble_and_repeat(call, first, sig):
    """The caller rescales, in place, every array it was given back (say the phase axis, to degrees), then makes the identical
    request again: the answer must be the one it got the first time."""
    keep = [np.array(a, dtype=float) for a in first]
    for a in first:
        if isinstance(a, np.ndarray) and a.flags.writeable and a.dtype.kind == 'f':
            a *= 57.29577951308232
            a += 1.0
    try:
        again = call()
    except Exception as e:
        raise Violation(sig + '/repeat-raises/' + type(e).__name__, repr(e))
    for k, a in zip(keep, again):
        a = np.asarray(a, dtype=float)
        if a.shape != k.shape or not np.array_equal(a, k, equal_nan=True):
            raise Violation(sig + '/repeated-request-differs-after-the-caller-edited-the-earlier-result', '')
    return keep


# ----------------------------------------------------------------------------
# (b) phase_align

G = {
    'linear': (lambda p: 0.7 * p - 1.3, 0.0),
    'sin': (np.sin, 1.0),
    'cos2': (lambda p: np.cos(2 * p), 4.0),
    'poly': (lambda p: 0.01 * p ** 3 - 0.1 * p ** 2 + p, 0.01 * 6 * TWO_PI + 0.2),
}


@st.composite
def align_case(draw):
    ip, lens = draw(gens.monotone_cycles_phase(2, 8, 8, 400, total_max=1200))
    nc = len(lens)
    return {'ip': ip, 'lens': lens, 'g': draw(st.sampled_from(sorted(G))),
            'npoints': draw(st.one_of(st.integers(2, 64), st.sampled_from([2, 3, 48, 64]))),
            'kind': draw(st.sampled_from(['linear', 'linear', 'quadratic', 'cubic'])),
            'percycle': draw(st.booleans()),
            'ab': [(draw(st.sampled_from([1.0, -2.0, 0.5, 3.0])), draw(st.sampled_from([0.0, 1.0, -4.0])))
                   for _ in range(nc)],
            'cycles_arg': draw(st.sampled_from(['none', 'vector', 'subset_vector', 'object', 'shifted_vector'])),
            'drop': draw(st.integers(0, nc - 1))}


def oracle_align(case, rec):
    import emd
    ip = np.asarray(case['ip'], dtype=float)
    lens = case['lens']
    nc = len(lens)
    g, g2max = G[case['g']]
    bounds = np.r_[0, np.cumsum(lens)]
    ab = case['ab'] if case['percycle'] else [(1.0, 0.0)] * nc
    x = np.zeros_like(ip)
    for c in range(nc):
        a, b = ab[c]
        x[bounds[c]:bounds[c + 1]] = a * g(ip[bounds[c]:bounds[c + 1]]) + b
    npoints = case['npoints']
    kw = {}
    cols = list(range(nc))
    if case['cycles_arg'] == 'vector':
        v = np.zeros(ip.size, dtype=int)
        for c in range(nc):
            v[bounds[c]:bounds[c + 1]] = c
        kw['cycles'] = v
    elif case['cycles_arg'] == 'subset_vector':
        v = np.zeros(ip.size, dtype=int) - 1
        cols = [c for c in range(nc) if c != case['drop']]
        for j, c in enumerate(cols):
            v[bounds[c]:bounds[c + 1]] = j
        kw['cycles'] = v
    elif case['cycles_arg'] == 'shifted_vector':
        # a caller's own labelling (e.g. trough to trough): every labelled cycle runs from the middle of one phase cycle to
        # the middle of the next, so it contains the 2pi -> 0 wrap and its phase samples are not in increasing order.
        # The quantity is the same function of phase for all cycles, so each column must still be g on the grid.
        ab = [(1.0, 0.0)] * nc
        x = g(ip)
        v = np.zeros(ip.size, dtype=int) - 1
        mids = [(bounds[c] + bounds[c + 1]) // 2 for c in range(nc)]
        cols = list(range(nc - 1))
        for j in cols:
            v[mids[j]:mids[j + 1]] = j
        kw['cycles'] = v
        shifted_bounds = [(mids[j], mids[j + 1]) for j in cols]
    elif case['cycles_arg'] == 'object':
        try:
            kw['cycles'] = emd.cycles.Cycles(ip.copy())
        except Exception as e:
            raise Violation('C14/phase_align/Cycles-raises/' + type(e).__name__, repr(e))
    def request():
        return emd.cycles.phase_align(ip.copy(), x.copy(), npoints=npoints, interp_kind=case['kind'], **kw)
    try:
        avg, grid = request()
    except Exception as e:
        raise Violation('C14/phase_align/raises/%s/%s' % (type(e).__name__, case['cycles_arg']), repr(e))
    if not isinstance(kw.get('cycles'), emd.cycles.Cycles):
        avg, grid = scribble_and_repeat(request, (avg, grid), 'C14/phase_align')
    avg = np.asarray(avg, dtype=float)
    egrid = (np.arange(npoints) + 0.5) * TWO_PI / npoints
    if np.asarray(grid).shape != egrid.shape or not np.allclose(grid, egrid, rtol=0, atol=1e-12):
        raise Violation('C14/phase_align/grid', 'got %r' % (np.asarray(grid)[:5],))
    if avg.shape != (npoints, len(cols)):
        raise Violation('C14/phase_align/shape/' + case['cycles_arg'], 'got %r expected %r' % (avg.shape, (npoints, len(cols))))
    worst = 0.0
    for j, c in enumerate(cols):
        a, b = ab[c]
        if case['cycles_arg'] == 'shifted_vector':
            ph = np.sort(ip[shifted_bounds[j][0]:shifted_bounds[j][1]])
        else:
            ph = ip[bounds[c]:bounds[c + 1]]
        exp = a * g(egrid) + b
        err = np.abs(avg[:, j] - exp)
        if case['g'] == 'linear':
            tol = 1e-9 * (1 + np.abs(exp))
            bad = err > tol
            ratio = 0.0
        else:
            h = np.diff(ph).max()
            inside = (egrid >= ph[0]) & (egrid <= ph[-1])
            cst = 1.0 / 8 if case['kind'] == 'linear' else 1.0
            tol = 4 * cst * abs(a) * g2max * h * h + 1e-9
            bad = inside & (err > tol)
            ratio = float((err[inside] / tol).max()) if inside.any() else 0.0
        worst = max(worst, ratio)
        if np.any(bad):
            i = int(np.argmax(bad))
            raise Violation('C14/phase_align/value/g=%s/%s' % ('linear' if case['g'] == 'linear' else 'nonlinear', case['cycles_arg']),
                            'cycle %d grid point %d: got %r expected %r (kind %s, npoints %d)' % (c, i, avg[i, j], exp[i], case['kind'], npoints))
    rec.cls('kind=' + case['kind'])
    rec.cls('g=' + case['g'])
    rec.cls('cycles=' + case['cycles_arg'])
    rec.cls('tolratio<%s' % ('0.1' if worst < 0.1 else '0.33' if worst < 0.33 else '1'))
    return len(set(lens)) >= 2


# ----------------------------------------------------------------------------
# (c) bin_by_phase

@st.composite
def bin_case(draw):
    kind = draw(st.sampled_from(['uniform', 'cycles', 'sparse']))
    k = draw(st.integers(0, 2**32 - 1))
    rng = np.random.default_rng(k)
    if kind == 'cycles':
        ip, _ = draw(gens.monotone_cycles_phase(1, 5, 3, 60, total_max=300))
    elif kind == 'uniform':
        n = draw(st.integers(1, 300))
        ip = rng.random(n) * TWO_PI
        ip[ip >= TWO_PI] = 0
    else:
        n = draw(st.integers(1, 12))
        ip = rng.random(n) * TWO_PI
    nbins = draw(st.one_of(st.integers(2, 64), st.sampled_from([2, 3, 24])))
    snap = draw(st.booleans())
    if snap:    # put some phases exactly on bin edges
        edges = np.linspace(0, TWO_PI, nbins + 1)
        j = rng.integers(0, len(ip), max(1, len(ip) // 4))
        ip = ip.copy()
        ip[j] = edges[rng.integers(0, nbins, len(j))]
    ncols = draw(st.integers(0, 3))
    x = np.round(rng.standard_normal((len(ip), max(ncols, 1))) * 5, 3)
    if ncols == 0:
        x = x[:, 0]
    edges = None
    if draw(st.integers(0, 3)) == 0:      # the caller's own (non-uniform) bin edges
        inner = np.sort(rng.random(nbins - 1)) * TWO_PI
        edges = np.unique(np.r_[0.0, inner, TWO_PI])
        if draw(st.booleans()) and len(edges) >= 4:
            edges = edges[1:-1]             # bins that leave out the start and the end of the cycle
        nbins = len(edges) - 1
    weights = None
    if x.ndim == 2 and draw(st.integers(0, 3)) == 0:
        weights = np.round(0.1 + rng.random(len(ip)), 3)
    return {'ip': ip, 'x': x, 'nbins': nbins, 'edges': edges, 'weights': weights}


def oracle_bin(case, rec):
    import emd
    ip = np.asarray(case['ip'], dtype=float)
    x = np.asarray(case['x'], dtype=float)
    nbins = case['nbins']
    import warnings
    with warnings.catch_warnings():
        warnings.simplefilter('ignore')
        try:
            kw = {}
            if case.get('edges') is not None:
                kw['bin_edges'] = np.asarray(case['edges'], dtype=float).copy()
            if case.get('weights') is not None:
                kw['weights'] = np.asarray(case['weights'], dtype=float).copy()
            def request():
                kw2 = {k: v.copy() for k, v in kw.items()}
                return emd.cycles.bin_by_phase(ip.copy(), x.copy(), nbins=nbins, **kw2)
            avg, var, centres = request()
            avg, var, centres = scribble_and_repeat(request, (avg, var, centres), 'C14/bin_by_phase')
        except Violation:
            raise
        except Exception as e:
            raise Violation('C14/bin_by_phase/raises/%s%s' % (type(e).__name__, '/custom-edges' if case.get('edges') is not None else ''), repr(e))
    avg = np.asarray(avg, dtype=float)
    edges = np.linspace(0, TWO_PI, nbins + 1) if case.get('edges') is None else np.asarray(case['edges'], dtype=float)
    w = None if case.get('weights') is None else np.asarray(case['weights'], dtype=float)
    rec.cls('edges=' + ('default' if case.get('edges') is None else 'custom'))
    rec.cls('weights=' + ('none' if w is None else 'given'))
    exp = np.full((nbins,) + x.shape[1:], np.nan)
    counts = np.zeros(nbins, dtype=int)
    for b in range(nbins):
        m = (ip >= edges[b]) & (ip < edges[b + 1])
        counts[b] = m.sum()
        if m.any():
            exp[b] = x[m].mean(axis=0) if w is None else (x[m] * w[m][:, None]).sum(axis=0) / w[m].sum()
    if avg.shape != exp.shape:
        raise Violation('C14/bin_by_phase/shape', '%r vs %r' % (avg.shape, exp.shape))
    for b in range(nbins):
        e, a = np.atleast_1d(exp[b]), np.atleast_1d(avg[b])
        where = 'last-bin' if b == nbins - 1 else 'bin'
        if counts[b] == 0:
            if not np.all(np.isnan(a)):
                raise Violation('C14/bin_by_phase/empty-bin-filled/' + where, 'bin %d got %r' % (b, a))
        else:
            if np.any(np.isnan(a)) or not np.allclose(a, e, rtol=1e-12, atol=1e-12):
                raise Violation('C14/bin_by_phase/value/' + where, 'bin %d of %d (n=%d) got %r expected %r' % (b, nbins, counts[b], a, e))
    if not np.allclose(centres, (edges[:-1] + edges[1:]) / 2, rtol=0, atol=1e-12):
        raise Violation('C14/bin_by_phase/centres', repr(centres[:4]))
    rec.cls('cols=%d' % (0 if x.ndim == 1 else x.shape[1]))
    rec.cls('empty_bins' if (counts == 0).any() else 'all_bins_filled')
    return counts[-1] > 0


@st.composite
def stat_object_case(draw):
    ip, lens = draw(gens.monotone_cycles_phase(2, 8, 4, 40, total_max=300))
    return {'ip': ip, 'lens': lens, 'k': draw(st.integers(0, 2**32 - 1)), 'func': draw(st.sampled_from(['mean', 'max', 'sum', 'len', 'first'])),
            'mode': draw(st.sampled_from(['cycle', 'augmented'])), 'out': draw(st.sampled_from([None, 'samples']))}


def oracle_stat_object(case, rec):
    """get_cycle_stat driven with a Cycles object: per-cycle statistic over the cycle (or, in augmented mode, over the cycle
    plus the run of samples back to the closest trough of the previous one); the projection back to samples is constant
    within each cycle's own samples and missing elsewhere."""
    import emd
    ip = np.asarray(case['ip'], dtype=float)
    lens = case['lens']
    bounds = np.r_[0, np.cumsum(lens)]
    vals = np.round(np.random.default_rng(case['k']).standard_normal(ip.size) * 5, 3)
    func = FUNCS[case['func']]
    try:
        C = emd.cycles.Cycles(ip.copy())
        got = np.asarray(emd.cycles.get_cycle_stat(C, vals.copy(), mode=case['mode'], out=case['out'], func=func), dtype=float)
    except Exception as e:
        raise Violation('C14/get_cycle_stat/Cycles-object/raises/%s/%s' % (type(e).__name__, case['mode']), repr(e))
    stat = []
    for c in range(len(lens)):
        a, b = bounds[c], bounds[c + 1]
        if case['mode'] == 'cycle':
            stat.append(float(func(vals[a:b])))
        elif c == 0:
            stat.append(np.nan)
        else:
            s0 = a
            while s0 > 0 and ip[s0 - 1] >= 1.5 * np.pi:
                s0 -= 1
            if np.any(np.abs(ip[bounds[c - 1]:a] - 1.5 * np.pi) < 1e-12):
                raise Discard('a phase sample exactly on the trough level')
            stat.append(float(func(vals[s0:b])))
    stat = np.array(stat)
    if case['out'] is None:
        exp = stat
    else:
        exp = np.full(ip.size, np.nan)
        for c in range(len(lens)):
            exp[bounds[c]:bounds[c + 1]] = stat[c]
    if got.size == exp.size:
        got = got.reshape(exp.shape)       # the projection may come back as a column; the property fixes values, not layout
    if got.shape != exp.shape or not np.array_equal(np.isnan(got), np.isnan(exp)) or \
            not np.allclose(got[~np.isnan(exp)], exp[~np.isnan(exp)], rtol=1e-12, atol=1e-12):
        raise Violation('C14/get_cycle_stat/Cycles-object/value/mode=%s/out=%s' % (case['mode'], case['out']),
                        'got %r expected %r' % (got.tolist()[:16], exp.tolist()[:16]))
    rec.cls('mode=' + case['mode'])
    rec.cls('out=%s' % case['out'])
    return len(set(lens)) >= 2


@st.composite
def align_modes_case(draw):
    ip, lens = draw(gens.monotone_cycles_phase(3, 8, 12, 80, total_max=500))
    return {'ip': ip, 'lens': lens, 'g': draw(st.sampled_from(['sin', 'cos2'])), 'npoints': draw(st.sampled_from([8, 24, 48])),
            'order': draw(st.sampled_from([['cycle', 'augmented'], ['augmented', 'cycle'], ['augmented', 'augmented'],
                                           ['cycle', 'augmented', 'cycle']]))}


def oracle_align_modes(case, rec):
    """phase_align through ONE iterator object, the alignment mode changing between calls: each result must be what a
    fresh iterator gives for that mode (bit for bit) and must follow the mode's definition - 'cycle': the cycle's own samples on
    a grid over [0, 2pi); 'augmented': the cycle plus the run back to the closest trough of the previous one, on a grid over
    [-pi/2, 2pi), the first cycle (nothing before it) left empty."""
    import emd
    ip = np.asarray(case['ip'], dtype=float)
    lens = case['lens']
    nc = len(lens)
    bounds = np.r_[0, np.cumsum(lens)]
    g, g2max = G[case['g']]
    x = g(ip)
    npoints = case['npoints']
    try:
        C = emd.cycles.Cycles(ip.copy())
        shared = C.iterate()
    except Exception as e:
        raise Violation('C14/phase_align/Cycles-raises/' + type(e).__name__, repr(e))
    if np.any(np.abs(ip - 1.5 * np.pi) < 1e-12):
        raise Discard('a phase sample exactly on the trough level')
    for step, mode in enumerate(case['order']):
        try:
            got, grid = emd.cycles.phase_align(ip.copy(), x.copy(), cycles=shared, npoints=npoints, mode=mode)
            fresh, _ = emd.cycles.phase_align(ip.copy(), x.copy(), cycles=C.iterate(), npoints=npoints, mode=mode)
        except Exception as e:
            raise Violation('C14/phase_align/raises/%s/mode=%s' % (type(e).__name__, mode), repr(e))
        got = np.asarray(got, dtype=float)
        tag = 'first-use' if step == 0 else 'after-%s' % case['order'][step - 1]
        if got.shape != (npoints, nc) or not np.array_equal(got, np.asarray(fresh), equal_nan=True):
            raise Violation('C14/phase_align/same-iterator-differs-from-fresh-iterator/mode=%s/%s' % (mode, tag), '')
        lo = 0.0 if mode == 'cycle' else -np.pi / 2
        egrid = lo + (np.arange(npoints) + 0.5) * (TWO_PI - lo) / npoints
        if not np.allclose(grid, egrid, rtol=0, atol=1e-12):
            raise Violation('C14/phase_align/grid/mode=' + mode, 'got %r' % (np.asarray(grid)[:4],))
        for c in range(nc):
            a, b = bounds[c], bounds[c + 1]
            if mode == 'cycle':
                ph = ip[a:b]
            elif c == 0:
                if np.any(got[:, 0] != 0):
                    raise Violation('C14/phase_align/augmented/first-cycle-not-empty', repr(got[:4, 0]))
                continue
            else:
                s0 = a
                while s0 > 0 and ip[s0 - 1] >= 1.5 * np.pi:
                    s0 -= 1
                ph = np.unwrap(ip[s0:b]) - TWO_PI
            inside = (egrid >= ph[0]) & (egrid <= ph[-1])
            h = np.diff(ph).max()
            err = np.abs(got[:, c] - g(egrid))[inside]
            if err.size and err.max() > g2max * h * h / 8 + 1e-9:
                raise Violation('C14/phase_align/value/mode=%s/%s' % (mode, tag),
                                'cycle %d: error %.3g above the interpolation bound %.3g' % (c, err.max(), g2max * h * h / 8))
        rec.cls('mode=%s %s' % (mode, tag))
    return True


CLAUSES = [
    Clause('C14.align_modes', oracle_align_modes, strategy=align_modes_case(), quick=600, thorough=12000, shards=(4, 16),
           nt_rule='every evaluated sequence of >= 2 alignments through one iterator'),
    Clause('C14.stat_object', oracle_stat_object, strategy=stat_object_case(), quick=1200, thorough=30000, shards=(4, 16),
           nt_rule='>=2 cycles of different length'),
    Clause('C14.stat', oracle_stat, strategy=stat_case(), quick=4000, thorough=80000, shards=(4, 16),
           nt_rule='>=2 cycles of different length'),
    Clause('C14.align', oracle_align, strategy=align_case(), quick=1600, thorough=30000, shards=(8, 16),
           nt_rule='>=2 cycles of different length'),
    Clause('C14.bin', oracle_bin, strategy=bin_case(), quick=3000, thorough=60000, shards=(4, 16),
           nt_rule='last phase bin non-empty'),
]
