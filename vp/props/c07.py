"""C07 - masked sift applies the documented masks, removes them, and is schedule independent."""
import os

import numpy as np
from hypothesis import strategies as st

from ..core import Clause, Violation, Discard
from .. import gens
from ..trace import Trace

RULE = ("Cases: signals of 48..512 samples (tones, AM/FM, noise, walk, levels; stored as float64, int64, int16 or float32) x mask frequency source {'zc','if', float, "
        "list} x amplitude mode {abs, ratio_sig, ratio_imf} x scalar / array mask_amp (positive, zero and negative, i.e. sign-flipped masks) x mask_step_factor in {1, 1.5, 2, 3, 4} x "
        "nphases 1..8 x nprocesses 1..8 x IMF options. Oracle (executable specification): get_next_imf_mask(x,z,a,P) == "
        "mean over p<P of [get_next_imf(x + a*cos(2pi z t + 2pi p/P)) - a*cos(...)] (1e-12 rel), flag == any member flag; "
        "mask_sift == the specified loop (frequency ladder z/step^i or the user's list, amplitude rule per mode, "
        "residual peeling, sift_thresh / continue-flag stops) assembled from single masked extractions; returned "
        "mask_freqs fed back as a list reproduce the output; the identical call repeated after the caller scaled the returned arrays in place returns the same frequencies and IMFs (bit for bit); zero amplitude == unmasked get_next_imf (1e-12); the "
        "result for nprocesses=n is np.array_equal to nprocesses=1. Worker pids are read from the guarded trace. "
        "Non-trivial: amplitude > 0, nphases >= 2 and >= 2 IMFs.")
ASSUMPTIONS = ["single-IMF extraction (get_next_imf) is the trusted building block here - it is decided by C04",
               "OS scheduling is sampled (by repetition over nprocesses 1..8), not controlled",
               "for 'if' the first frequency itself is only required to lie in (0, 0.5)"]


STAGE_OPTS = [(None, None), (None, None), ({'interp_method': 'pchip'}, None), (None, {'pad_width': 4, 'parabolic_extrema': True}),
              ({'interp_method': 'mono_pchip'}, {'pad_width': 1})]


def spec_mask_imf(emd, x, z, a, P, opts, eo=None, xo=None):
    """mean_p [ get_next_imf(x + m_p) - m_p ], any(flags)."""
    t = np.arange(x.size)
    outs = []
    flags = []
    for p in range(P):
        m = a * np.cos(2 * np.pi * z * t + 2 * np.pi * p / P)
        imf, fl = emd.sift.get_next_imf((x + m)[:, None], envelope_opts=eo, extrema_opts=xo, **opts)
        outs.append(np.asarray(imf)[:, 0] - m)
        flags.append(bool(fl))
    return np.mean(outs, axis=0), any(flags)


def zero_crossings(v):
    return int((np.diff(np.sign(v)) != 0).sum())


@st.composite
def imf_case(draw):
    n = draw(st.sampled_from([48, 64, 100, 128, 256, 512]))
    sig = {'family': draw(st.sampled_from(['tones', 'amfm', 'noise', 'walk', 'levels'])), 'n': n,
           'k': draw(st.integers(0, 2**32 - 1)), 'p1': draw(st.floats(0, 1)), 'p2': draw(st.floats(0, 1))}
    opts = draw(st.sampled_from([{}, {'stop_method': 'fixed', 'max_iters': 3}, {'stop_method': 'rilling'},
                                 {'env_step_size': 0.5, 'sd_thresh': 0.05}]))
    return {'sig': sig, 'z': draw(st.sampled_from([0.4, 0.25, 0.11, 0.03, 0.007])),
            'amp': draw(st.sampled_from([0.0, 0.3, 1.0, 2.5, -0.7])), 'nphases': draw(st.integers(1, 8)),
            'nproc': draw(st.integers(1, 8)), 'opts': opts, 'stage': draw(st.integers(0, len(STAGE_OPTS) - 1))}


def oracle_imf(case, rec):
    import emd
    x = gens.sig_of(case['sig'])
    z, a, P, opts = case['z'], case['amp'], case['nphases'], dict(case['opts'])
    eo, xo = STAGE_OPTS[case.get('stage', 0)]
    skw = {}
    if eo is not None:
        skw['envelope_opts'] = dict(eo)
    if xo is not None:
        skw['extrema_opts'] = dict(xo)
    rec.cls('stage-options=%s' % ('default' if not skw else '+'.join(sorted(skw))))
    try:
        with Trace() as tr:
            got, flag = emd.sift.get_next_imf_mask(x[:, None].copy(), z, a, nphases=P, nprocesses=case['nproc'], imf_opts=dict(opts), **skw)
        base, bflag = emd.sift.get_next_imf_mask(x[:, None].copy(), z, a, nphases=P, nprocesses=1, imf_opts=dict(opts), **skw)
    except emd.support.EMDSiftCovergeError:
        raise Discard('convergence error')
    except Exception as e:
        raise Violation('C07/get_next_imf_mask/raises/' + type(e).__name__, repr(e))
    got = np.asarray(got)
    if got.shape != (x.size, 1):
        raise Violation('C07/get_next_imf_mask/shape', repr(got.shape))
    if not np.array_equal(got, np.asarray(base)) or bool(flag) != bool(bflag):
        raise Violation('C07/get_next_imf_mask/depends-on-nprocesses', 'nprocesses=%d vs 1: max dev %.3g' % (
            case['nproc'], np.abs(got - np.asarray(base)).max()))
    try:
        exp, eflag = spec_mask_imf(emd, x, z, a, P, opts, eo, xo)
    except emd.support.EMDSiftCovergeError:
        raise Discard('convergence error in the specification')
    scale = max(np.abs(x).max(), abs(a), 1e-300)
    dev = np.abs(got[:, 0] - exp).max() / scale
    if dev > 1e-12:
        raise Violation('C07/get_next_imf_mask/not-mean-of-masked-extractions', 'rel dev %.3g (z=%r a=%r P=%d)' % (dev, z, a, P))
    if bool(flag) != eflag:
        raise Violation('C07/get_next_imf_mask/flag', 'got %r expected %r' % (flag, eflag))
    if a == 0:
        plain, _ = emd.sift.get_next_imf(x[:, None].copy(), envelope_opts=eo, extrema_opts=xo, **opts)
        if np.abs(got - np.asarray(plain)).max() / scale > 1e-12:
            raise Violation('C07/get_next_imf_mask/zero-amplitude-differs-from-unmasked', '')
        rec.cls('zero-amplitude')
    pids = [p for p in tr.pids('get_next_imf') if p != os.getpid()]
    rec.cls('worker_pids=%d' % len(pids))
    rec.cls('nprocesses=%d' % case['nproc'])
    rec.cls('amplitude ' + ('zero' if a == 0 else 'negative' if a < 0 else 'positive'))
    return a != 0 and P >= 2


@st.composite
def sift_case(draw):
    n = draw(st.sampled_from([64, 100, 128, 256, 400]))
    sig = {'family': draw(st.sampled_from(['tones', 'amfm', 'noise', 'walk'])), 'n': n,
           'k': draw(st.integers(0, 2**32 - 1)), 'p1': draw(st.floats(0, 1)), 'p2': draw(st.floats(0, 1))}
    src = draw(st.sampled_from(['zc', 'if', 'float', 'list']))
    if src == 'float':
        freqs = draw(st.sampled_from([0.4, 0.25, 0.13]))
    elif src == 'list':
        freqs = [0.3, 0.12, 0.05, 0.02, 0.008][:draw(st.integers(1, 5))]
    else:
        freqs = src
    amp = draw(st.sampled_from([1, 0.5, 2.0, -0.8, 'array', 'array-signed']))
    if amp == 'array':
        amp = np.array([1.0, 0.5, 2.0, 1.5, 0.7, 1.0, 1.0, 1.0, 1.0])
    elif amp == 'array-signed':
        amp = np.array([1.0, -0.5, 2.0, -1.5, 0.7, 1.0, 1.0, 1.0, 1.0])
    opts = draw(st.sampled_from([None, {'stop_method': 'fixed', 'max_iters': 4}, {'sd_thresh': 0.2}]))
    # storage of the signal: float64, integers (ADC counts), or - with absolute mask amplitudes only, because a ratio
    # amplitude is a multiple of X.std(), which numpy evaluates in the storage precision - float32
    sig['dtype'] = draw(st.sampled_from(['f8', 'f8', 'f8', 'i8', 'i2', 'f4']))
    sig['layout'] = draw(st.sampled_from(['C', 'C', 'C', 'strided', 'readonly']))
    return {'sig': sig, 'freqs': freqs, 'mode': draw(st.sampled_from(['abs', 'ratio_sig', 'ratio_imf'])), 'amp': amp,
            'step': draw(st.sampled_from([1.5, 2, 2.0, 3, 4.0, 1, 1.0])), 'nphases': draw(st.integers(1, 8)),
            'nproc': draw(st.integers(2, 8)), 'max_imfs': draw(st.integers(1, 6)), 'opts': opts,
            'stage': draw(st.integers(0, len(STAGE_OPTS) - 1))}


def oracle_sift(case, rec):
    import emd
    sigd = dict(case['sig'])
    if sigd.get('dtype') == 'f4' and case['mode'] != 'abs':
        sigd['dtype'] = 'f8'
    xt = gens.sig_of(sigd)              # as stored (handed to mask_sift)
    x = xt.astype(float)                # the same values as float64 (the specification works on these)
    rec.cls('dtype=' + sigd.get('dtype', 'f8'))
    rec.cls('layout=' + sigd.get('layout', 'C'))
    amp = case['amp']
    opts = case['opts']
    kw = dict(mask_amp=amp.copy() if isinstance(amp, np.ndarray) else amp, mask_amp_mode=case['mode'],
              mask_step_factor=case['step'], nphases=case['nphases'], max_imfs=case['max_imfs'],
              imf_opts=None if opts is None else dict(opts))
    eo, xo = STAGE_OPTS[case.get('stage', 0)]
    if eo is not None:
        kw['envelope_opts'] = dict(eo)
    if xo is not None:
        kw['extrema_opts'] = dict(xo)
    rec.cls('stage-options=%s' % ('default' if eo is None and xo is None else 'custom'))
    freqs = case['freqs']
    fa = list(freqs) if isinstance(freqs, list) else freqs
    try:
        with Trace() as tr:
            got_n = np.asarray(emd.sift.mask_sift(gens.arg(xt), mask_freqs=fa, nprocesses=case['nproc'], **kw))
        got, mf = emd.sift.mask_sift(gens.arg(xt), mask_freqs=list(fa) if isinstance(fa, list) else fa, nprocesses=1,
                                     ret_mask_freq=[True, 1, np.True_][case['nphases'] % 3], **kw)
    except emd.support.EMDSiftCovergeError:
        raise Discard('convergence error')
    except Exception as e:
        raise Violation('C07/mask_sift/raises/%s/%s' % (type(e).__name__, freqs if isinstance(freqs, str) else type(freqs).__name__), repr(e))
    raw_out = (got, mf)
    got = np.array(got, dtype=float)
    mf = np.array(mf, dtype=float)
    src = freqs if isinstance(freqs, str) else 'list' if isinstance(freqs, list) else 'float'
    if src == 'if' and not (np.all(np.isfinite(mf)) and 0 < mf[0] < 0.5):
        raise Discard("'if': the instantaneous-frequency estimate of the first IMF is undefined or outside (0, 0.5) "
                      "(e.g. an IMF with < 2 maxima has no amplitude envelope)")
    if got_n.shape != got.shape or not np.array_equal(got_n, got, equal_nan=True):
        raise Violation('C07/mask_sift/depends-on-nprocesses', 'nprocesses=%d' % case['nproc'])
    K = got.shape[1]
    if got.shape[0] != x.size or not np.all(np.isfinite(got)):
        raise Violation('C07/mask_sift/shape-or-nonfinite', repr(got.shape))
    o = {} if opts is None else dict(opts)
    # documented frequency schedule
    if src == 'list':
        ef = np.array(freqs[:min(len(freqs), case['max_imfs'])], dtype=float)
        if not np.allclose(mf[:len(ef)], ef, rtol=0, atol=0):
            raise Violation('C07/mask_sift/returned-freqs-differ-from-list', '%r vs %r' % (mf, ef))
    else:
        if src == 'float':
            z0 = freqs
        elif src == 'zc':
            first, _ = emd.sift.get_next_imf(x[:, None].copy(), envelope_opts=eo, extrema_opts=xo, **o)
            z0 = zero_crossings(np.asarray(first)[:, 0]) / x.size / 4
        else:
            z0 = mf[0]
        ef = np.array([z0 / case['step'] ** i for i in range(case['max_imfs'])])
        if mf.shape != ef.shape or not np.allclose(mf, ef, rtol=1e-12, atol=0):
            raise Violation('C07/mask_sift/frequency-ladder/' + src, 'got %r expected %r' % (mf.tolist(), ef.tolist()))
    if K > len(ef):
        raise Violation('C07/mask_sift/more-imfs-than-masks', '%d > %d' % (K, len(ef)))
    # specified loop
    scale = np.abs(x).max() or 1.0
    cols = []
    stop_expected = None
    for j in range(len(ef)):
        res = x - (np.sum(cols, axis=0) if cols else 0)
        if case['mode'] == 'abs':
            sd = 1
        elif case['mode'] == 'ratio_sig' or j == 0:
            sd = x.std()
        else:
            sd = cols[-1].std()
        a = (amp[j] if isinstance(amp, np.ndarray) else amp) * sd
        try:
            c, fl = spec_mask_imf(emd, res, ef[j], a, case['nphases'], o, eo, xo)
        except emd.support.EMDSiftCovergeError:
            raise Discard('convergence error in the specification')
        cols.append(c)
        if j >= K:
            raise Violation('C07/mask_sift/stopped-early', 'returned %d IMFs, specification continues (layer %d)' % (K, j))
        dev = np.abs(got[:, j] - c).max() / scale
        if dev > 1e-9:
            raise Violation('C07/mask_sift/imf-differs-from-specification/%s/%s' % (case['mode'], 'first' if j == 0 else 'later'),
                            'IMF %d: rel dev %.3g (z=%r amp=%r)' % (j, dev, ef[j], a))
        cols[-1] = got[:, j]    # continue from the implementation's own column (no error accumulation)
        if j == len(ef) - 1 or np.abs(got[:, j]).sum() < 1e-8 or not fl:
            stop_expected = j + 1
            break
    if stop_expected is not None and K != stop_expected:
        raise Violation('C07/mask_sift/number-of-imfs', 'got %d expected %d' % (K, stop_expected))
    # returned frequencies reproduce the output when fed back explicitly
    try:
        again = np.asarray(emd.sift.mask_sift(gens.arg(xt), mask_freqs=list(mf), nprocesses=1, **kw))
    except Exception as e:
        raise Violation('C07/mask_sift/feedback-raises/' + type(e).__name__, repr(e))
    if again.shape != got.shape or np.abs(again - got).max() / scale > 1e-12:
        raise Violation('C07/mask_sift/returned-freqs-do-not-reproduce-output/' + src, '')
    # the caller overwrites what was returned (say, converts the frequencies to Hz in place) and repeats the call
    for r in raw_out:
        if isinstance(r, np.ndarray) and r.flags.writeable:
            r *= 128.0
        elif isinstance(r, list):
            r[:] = [128.0 * v for v in r]
    try:
        got2, mf2 = emd.sift.mask_sift(gens.arg(xt), mask_freqs=list(fa) if isinstance(fa, list) else fa, nprocesses=1,
                                       ret_mask_freq=True, **kw)
    except Exception as e:
        raise Violation('C07/mask_sift/repeat-raises/' + type(e).__name__, repr(e))
    if not (np.array_equal(np.asarray(mf2, dtype=float), mf, equal_nan=True) and np.array_equal(np.asarray(got2), got)):
        raise Violation('C07/mask_sift/repeat-after-caller-edited-the-returned-arrays/' + src,
                        'frequencies %r then %r' % (mf.tolist(), np.asarray(mf2, dtype=float).tolist()))
    pids = [p for p in tr.pids('get_next_imf') if p != os.getpid()]
    rec.cls('worker_pids=%s' % (len(pids) if len(pids) < 8 else '8+'))
    rec.cls('freqs=' + src)
    rec.cls('mode=' + case['mode'])
    rec.cls('amp=' + ('array' if isinstance(amp, np.ndarray) else 'scalar'))
    return case['nphases'] >= 2 and K >= 2


CLAUSES = [
    Clause('C07.imf', oracle_imf, strategy=imf_case(), quick=960, thorough=8000, shards=(16, 16),
           nt_rule='amplitude > 0 and nphases >= 2'),
    Clause('C07.sift', oracle_sift, strategy=sift_case(), quick=640, thorough=6000, shards=(16, 16),
           nt_rule='nphases >= 2 and >= 2 IMFs'),
]
