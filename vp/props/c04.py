"""C04 - single-IMF extraction obeys its stopping rule and always terminates."""
import copy

import numpy as np
from hypothesis import strategies as st

from ..core import Clause, Violation, Discard
from .. import gens, refmodel

RULE = ("Cases: signals of length 3..400 from all families (short noisy ones over-weighted; stored as float64 / float32 / int64 / int16) x stop rule {sd, rilling, "
        "fixed} x thresholds (sd 1e-6..0.5; Rilling triples) x step in {1,.75,.5,1/3,.1} x iteration limit 1..1000 "
        "(1..6 over-weighted together with tiny thresholds to force non-convergence) x {splrep,pchip,mono_pchip} x "
        "pad width 1..5 x energy_thresh in {None,10..80}. Oracle: differential against an independent re-"
        "implementation of the stated iteration (vp.refmodel.ref_extract): same outcome kind (IMF / unmodified "
        "input flagged final / EMDSiftCovergeError), same array (bit-exact expected, 1e-9 tolerated), flag False "
        "only when the input itself has too few extrema (or an energy threshold is set). Limit: a result is "
        "required when the reference stops within max_iters iterations, the error when it needs more than "
        "max_iters+1, either at exactly max_iters+1 (docstring and code differ by one). Mismatches are only "
        "reported when the reference's decisions were well conditioned (stop metric > 1e-9 from its threshold, no "
        "adjacent samples of a later iterate closer than 1e-10). (pool) extractions that cannot converge, run inside pool workers through get_next_imf_mask / mask_sift / ensemble_sift in "
        "a fresh interpreter: the call must end in the convergence error (or return), never hang or fail otherwise. "
        "Non-trivial: the reference needed >= 2 iterations.")
ASSUMPTIONS = ["scipy interpolators shared by implementation and reference are trusted; the oracle is about the "
               "iteration, stopping and limit logic", "a single extraction running > 240 s counts as non-termination"]


MAGPADS = [{'mode': 'mean', 'stat_length': 3}, {'mode': 'median', 'stat_length': 3}, {'mode': 'edge'}, {'mode': 'maximum'}]


@st.composite
def case(draw):
    sig = draw(gens.sift_signal(400))
    sm = draw(st.sampled_from(['sd', 'sd', 'rilling', 'fixed']))
    opts = {'stop_method': sm, 'env_step_size': draw(st.sampled_from([1, 1, 0.75, 0.5, 1 / 3, 0.1]))}
    if sm == 'sd':
        opts['sd_thresh'] = draw(st.sampled_from([0.5, 0.2, 0.1, 0.05, 0.02, 1e-3, 1e-6]))
    elif sm == 'rilling':
        opts['rilling_thresh'] = draw(st.sampled_from([(0.05, 0.5, 0.05), (0.1, 0.8, 0.1), (0.02, 0.3, 0.05),
                                                       (0.2, 0.9, 0.2), (0.01, 0.1, 0.01),
                                                       # the local threshold below the global one is a valid (if unusual) choice
                                                       (0.5, 0.05, 0.05), (0.3, 0.1, 0.2)]))
    if sm == 'fixed':
        opts['max_iters'] = draw(st.one_of(st.integers(1, 6), st.integers(1, 40)))
    else:
        opts['max_iters'] = draw(st.one_of(st.integers(1, 6), st.integers(1, 6), st.integers(7, 60),
                                           st.sampled_from([200, 1000])))
    energy = draw(st.sampled_from([None, None, None, 10, 50, 80]))
    # the far ends of the finite range: squares overflow (1e200) or underflow to zero (1e-200), so the SD metric is not
    # a number and can never be below its threshold - the extraction has to run into its limit and say so
    ampl = draw(st.sampled_from([None] * 7 + [1e200, 1e-200]))
    if ampl is not None:
        energy = None
    return {'sig': sig, 'opts': opts, 'energy': energy,
            'interp': draw(st.sampled_from(['splrep', 'pchip', 'mono_pchip'])),
            'pad': draw(st.integers(1, 5)), 'ampl': ampl,
            'par': draw(st.sampled_from([False, False, False, True])), 'magpad': draw(st.sampled_from([None, None, None, 0, 1, 2, 3]))}


@st.composite
def vanish_case(draw):
    """Short noisy signals sifted long: the region where an iterate loses its extrema mid-extraction."""
    sig = {'family': 'noise', 'n': draw(st.sampled_from([7, 8, 8, 9, 10])),
           'k': draw(st.integers(0, 2**32 - 1)), 'p1': draw(st.floats(0, 1)), 'p2': draw(st.floats(0, 1))}
    sm = draw(st.sampled_from(['sd', 'rilling', 'fixed']))
    opts = {'stop_method': sm, 'env_step_size': draw(st.sampled_from([1, 1, 0.5])),
            'max_iters': draw(st.sampled_from([10, 30, 100])) if sm != 'fixed' else draw(st.integers(3, 30))}
    if sm == 'sd':
        opts['sd_thresh'] = draw(st.sampled_from([1e-3, 1e-4, 0.02]))
    elif sm == 'rilling':
        opts['rilling_thresh'] = draw(st.sampled_from([(0.05, 0.5, 0.05), (0.01, 0.1, 0.01)]))
    return {'sig': sig, 'opts': opts, 'energy': None, 'interp': draw(st.sampled_from(['splrep', 'splrep', 'pchip', 'mono_pchip'])),
            'pad': draw(st.integers(1, 5))}


def oracle(case, rec):
    import emd
    xt = gens.sig_of(case['sig'])           # possibly float32 / integer dtype
    x = xt.astype(float)
    if case.get('ampl') is not None:
        x = x * case['ampl']
        xt = x
        rec.cls('amplitude=%g' % case['ampl'])
    opts = dict(case['opts'])
    eo = {'interp_method': case['interp']}
    xo = {'pad_width': case['pad']}
    if case.get('par'):
        xo['parabolic_extrema'] = True
    if case.get('magpad') is not None:
        xo['mag_pad_opts'] = dict(MAGPADS[case['magpad']])
    rec.cls('extrema-options=%s' % ('pad-width-only' if len(xo) == 1 else 'refined/custom-padding'))
    L = opts['max_iters']
    sm = opts['stop_method']
    r = refmodel.ref_extract(x, envelope_opts=eo, extrema_opts=xo, hard_cap=(L + 3 if sm != 'fixed' else L + 1), **opts)
    kw = dict(opts)
    if case['energy'] is not None:
        kw['energy_thresh'] = case['energy']
    xin = gens.arg(xt)[:, None]
    eo_live, xo_live = dict(eo), copy.deepcopy(xo)       # caller-owned dicts, reused for the repeated call below
    try:
        imf, flag = emd.sift.get_next_imf(xin, envelope_opts=eo_live, extrema_opts=xo_live, **kw)
        got = 'result'
    except emd.support.EMDSiftCovergeError:
        got = 'error'
    except BaseException as e:
        if type(e).__name__ == 'CaseTimeout':
            raise Violation('C04/get_next_imf/no-termination/' + sm, 'reference exit %s after %d iterations' % (r.exit, r.niters))
        if not isinstance(e, Exception):
            raise
        raise Violation('C04/get_next_imf/raises/%s/%s' % (type(e).__name__, sm), repr(e))
    if not np.array_equal(xin[:, 0], x):
        raise Violation('C04/get_next_imf/input-modified', '')
    if eo_live != eo or xo_live != xo:
        raise Violation('C04/get_next_imf/option-dict-modified', 'envelope_opts %r -> %r, extrema_opts %r -> %r' % (eo, eo_live, xo, xo_live))
    if got == 'result':
        # the same extraction again with the same (reused) option objects must give the same iterate
        try:
            imf2, flag2 = emd.sift.get_next_imf(xin, envelope_opts=eo_live, extrema_opts=xo_live, **kw)
        except Exception as e:
            raise Violation('C04/get_next_imf/repeated-call-raises/' + type(e).__name__, repr(e))
        if not np.array_equal(np.asarray(imf2), np.asarray(imf)) or bool(flag2) != bool(flag):
            raise Violation('C04/get_next_imf/repeated-call-differs', 'same input and option objects, different iterate')
    well = r.margin_stop > 1e-9 and r.note == ''

    def mismatch(sig, msg):
        if not well:
            raise Discard('mismatch on an ill-conditioned case (stop metric within 1e-9 of threshold / zero Rilling amplitude)')
        if xo.get('parabolic_extrema'):
            # under parabolic refinement a near-flat extremum makes the vertex formula itself rounding sensitive: measured
            # by running the reference with its two algebraically equal vertex formulas (see DESIGN 7.3, C06.reference)
            def run():
                return refmodel.ref_extract(x, envelope_opts=eo, extrema_opts=xo,
                                            hard_cap=(L + 3 if sm != 'fixed' else L + 1), **opts).imf
            sens = refmodel.rounding_sensitive(run) / (np.abs(x).max() or 1.0)
            if r.margin_par <= 1e-4 or r.margin_tie <= 1e-10 or sens > 1e-12:
                raise Discard('mismatch on an extraction that is rounding sensitive under parabolic refinement')
        raise Violation(sig, msg + ' [ref exit=%s niters=%d L=%d opts=%r n=%d]' % (r.exit, r.niters, L, opts, x.size))

    if sm != 'fixed':
        if r.kind == 'error' or r.niters >= L + 2:
            need = 'error'
        elif r.niters == L + 1:
            need = 'either'
        else:
            need = 'result'
    else:
        need = 'result'
    rec.cls('exit=' + ('limit' if need == 'error' else r.exit))
    rec.cls('stop=' + sm)
    rec.cls('dtype=' + case['sig'].get('dtype', 'f8'))
    if need == 'error':
        if got != 'error':
            mismatch('C04/get_next_imf/limit-not-enforced/' + sm, 'returned although the reference needs > max_iters+1 iterations')
        return r.niters >= 2
    if got == 'error':
        if need == 'either':
            rec.cls('limit-boundary(max_iters+1)')
            return True
        mismatch('C04/get_next_imf/spurious-convergence-error/' + sm, 'raised although the reference stops within the limit')
    imf = np.asarray(imf)
    if imf.shape != (x.size, 1):
        raise Violation('C04/get_next_imf/shape', repr(imf.shape))
    if not np.all(np.isfinite(imf)):
        raise Violation('C04/get_next_imf/nonfinite', '')
    scale = np.abs(x).max() if np.abs(x).max() > 0 else 1.0
    if np.array_equal(imf[:, 0], r.imf):
        rec.cls('bit-exact')
    elif np.allclose(imf[:, 0], r.imf, rtol=1e-9, atol=1e-9 * scale):
        rec.cls('within-1e-9')
    else:
        dev = np.abs(imf[:, 0] - r.imf).max() / scale
        which = {'no-extrema-input': 'input-not-returned', 'extrema-vanished': 'extrema-vanished-iterate',
                 'stop-rule': 'stop-rule-iterate'}[r.exit]
        mismatch('C04/get_next_imf/wrong-iterate/%s/%s' % (which, sm), 'max rel dev %.3g' % dev)
    if case['energy'] is None:
        if bool(flag) != r.flag:
            mismatch('C04/get_next_imf/continue-flag/%s' % r.exit, 'flag %r expected %r' % (flag, r.flag))
    else:
        rec.cls('energy_thresh')
        if r.exit == 'no-extrema-input' and bool(flag):
            mismatch('C04/get_next_imf/continue-flag/no-extrema-input+energy', 'flag True on extremum-free input')
    return r.niters >= 2


POOL_SCRIPT = r'''
import sys, json, warnings
warnings.filterwarnings('ignore')
if __name__ == '__main__':
    sys.path.insert(0, sys.argv[1]); sys.path.insert(0, sys.argv[2])
    import numpy as np
    import emd
    from vp import gens
    spec = json.loads(sys.argv[3])
    x = gens.sig_of(spec['sig'])
    opts = spec['opts']
    out = 'returned'
    try:
        if spec['route'] == 'get_next_imf_mask':
            emd.sift.get_next_imf_mask(x[:, None], 0.2, 0.5, nphases=spec['nphases'], nprocesses=spec['nproc'], imf_opts=opts)
        elif spec['route'] == 'mask_sift':
            emd.sift.mask_sift(x, max_imfs=2, mask_freqs=[0.2, 0.07], nphases=spec['nphases'], nprocesses=spec['nproc'], imf_opts=opts)
        else:
            np.random.seed(3)
            emd.sift.ensemble_sift(x, max_imfs=2, nensembles=2, nprocesses=spec['nproc'], imf_opts=opts)
    except emd.support.EMDSiftCovergeError:
        out = 'EMDSiftCovergeError'
    except BaseException as e:
        out = 'other:' + type(e).__name__
    sys.stdout.write(out)
'''


@st.composite
def pool_case(draw):
    sig = {'family': draw(st.sampled_from(['noise', 'tones', 'walk'])), 'n': draw(st.sampled_from([48, 64, 100])),
           'k': draw(st.integers(0, 2**32 - 1)), 'p1': draw(st.floats(0, 1)), 'p2': draw(st.floats(0, 1))}
    return {'sig': sig, 'route': draw(st.sampled_from(['get_next_imf_mask', 'mask_sift', 'ensemble_sift'])),
            'nproc': draw(st.sampled_from([1, 2, 3])), 'nphases': draw(st.sampled_from([1, 2, 4])),
            'opts': {'stop_method': draw(st.sampled_from(['sd', 'rilling'])), 'max_iters': draw(st.integers(1, 3)),
                     'sd_thresh': 1e-12, 'rilling_thresh': [1e-9, 1e-8, 1e-9]}}


def oracle_pool(case, rec):
    """An extraction that cannot converge within its limit must end in the documented convergence error also when it runs
    in a pool worker (masked / ensemble sifts): the call may neither hang nor fail differently."""
    import os
    import sys
    import json
    import subprocess
    import tempfile
    from ..core import REPO, VERIF
    x = gens.sig_of(case['sig'])
    r = refmodel.ref_extract(x + 0.0, hard_cap=case['opts']['max_iters'] + 3, stop_method=case['opts']['stop_method'],
                             max_iters=case['opts']['max_iters'], sd_thresh=1e-12, rilling_thresh=(1e-9, 1e-8, 1e-9))
    with tempfile.NamedTemporaryFile('w', suffix='.py', dir='/dev/shm' if os.path.isdir('/dev/shm') else None, delete=False) as f:
        f.write(POOL_SCRIPT)
        script = f.name
    try:
        try:
            p = subprocess.run([sys.executable, '-W', 'ignore', script, REPO, VERIF, json.dumps(case)], capture_output=True,
                               text=True, timeout=90, env=dict(os.environ, PYTHONPATH=VERIF))
            out = p.stdout.strip() if p.returncode == 0 else 'crashed:' + p.stderr[-300:]
        except subprocess.TimeoutExpired:
            out = 'hang'
    finally:
        os.unlink(script)
        subprocess.run(['pkill', '-f', script], capture_output=True)
    rec.cls('route=' + case['route'])
    rec.cls('outcome=' + out.split(':')[0])
    if out == 'hang':
        raise Violation('C04/pool/no-termination/' + case['route'],
                        'a non-converging extraction inside a pool worker: the call did not return within 90 s')
    if out.startswith('other') or out.startswith('crashed'):
        raise Violation('C04/pool/fails-with-another-error/' + case['route'], out)
    # masked / noisy inputs differ from x, so the reference on x only tells us what is *likely*; both outcomes are legitimate
    return out == 'EMDSiftCovergeError'


CLAUSES = [
    Clause('C04.pool', oracle_pool, strategy=pool_case(), quick=32, thorough=320, shards=(16, 16),
           nt_rule='the pooled call ended in the documented convergence error'),
    Clause('C04.differential', oracle, strategy=case(), quick=5000, thorough=120000, shards=(8, 16),
           nt_rule='reference needed >= 2 iterations'),
    Clause('C04.vanish', oracle, strategy=vanish_case(), quick=3000, thorough=60000, shards=(8, 16),
           nt_rule='reference needed >= 2 iterations'),
]
