"""C10 - the Hilbert-Huang spectrum bins every sample's energy exactly once."""
import itertools

import numpy as np
from hypothesis import strategies as st

from ..core import Clause, Violation, Discard
from .. import gens

RULE = ("Cases: (grid, exhaustive) edges [1,2,4] and [0.5,1,2,4]; every [T x M] frequency array with T<=2 "
        "(quick) / T*M<=4 with T<=3 (thorough), M<=2 over the values {-1, 0.25, each edge, each mid-bin, above} "
        "x 2 amplitude patterns x {energy, amplitude}; (random) Hypothesis arrays T<=200, M<=6 with linear/log "
        "bin sets of 1..40 bins from define_hist_bins, each frequency snapped onto an edge with p=0.3, out-of-"
        "range values on both sides, arrays handed over C-contiguous / column-major / strided / read-only, frequencies stored as float64 / float32 (integer frequency arrays are not accepted by hilberthuang_1d and are outside the domain). Oracle: brute force H[b,t]=sum_m w[t,m]*[e_b<=f[t,m]<e_b+1], w=a or a^2; "
        "dense == H, sparse.toarray() == H, hilberthuang_1d[b,m] == sum_t, row sums agree, grand total == "
        "in-range amplitude/energy (<=1e-12 rel). Non-trivial: >=1 sample out of range or exactly on an edge.")
ASSUMPTIONS = ["bin edges strictly increasing", "amplitudes finite and non-negative; frequencies finite"]


def brute(f, a, edges, mode):
    T, M = f.shape
    nb = len(edges) - 1
    w = a ** 2 if mode == 'energy' else a
    H = np.zeros((nb, T))
    S = np.zeros((nb, M))
    for t in range(T):
        for m in range(M):
            for b in range(nb):
                if edges[b] <= f[t, m] < edges[b + 1]:
                    H[b, t] += w[t, m]
                    S[b, m] += w[t, m]
    return H, S


RT = [1e-12]       # relative tolerance of the comparisons: 1e-12, or single precision when the caller's amplitudes are float32
                   # (numpy then squares and sums in float32 by its own rules)


def close(a, b):
    return a.shape == b.shape and np.allclose(a, b, rtol=RT[0], atol=RT[0] * (1 + np.abs(b).max() if b.size else 1))


def oracle(case, rec):
    import emd
    f = np.asarray(case['f'], dtype=float)
    a = np.asarray(case['a'], dtype=float)
    edges = np.asarray(case['edges'], dtype=float)
    mode = case['mode']
    H, S = brute(f, a, edges, mode)
    below = bool((f < edges[0]).any())
    above = bool((f >= edges[-1]).any())
    onedge = bool(np.isin(f, edges).any())
    tag = ('below' if below else '') + ('above' if above else '') + ('edge' if onedge else '') or 'inrange'
    if not (np.all(np.isfinite(f)) and np.all(np.isfinite(a))):
        raise Discard('non-finite input (outside the domain)')
    lay = case.get('layout', 'C')
    dt = case.get('dtype', 'f8')
    if dt == 'f4':        # single-precision / integer frequency arrays: the brute force works on the exact stored values
        f = f.astype(np.float32).astype(float)
    elif dt == 'i8':
        f = np.round(f)
    fin = f.astype({'f8': np.float64, 'f4': np.float32, 'i8': np.int64}[dt])
    adt = case.get('adtype', 'f8')
    if adt != 'f8':
        # amplitudes as stored by the caller: integer counts (scaled and rounded) or single precision; the brute force sums
        # the exact stored values in float64
        a = np.round(a * case.get('again', 1.0)) if adt[0] == 'i' else a.astype(np.float32).astype(float)
    astored = a.astype({'f8': np.float64, 'f4': np.float32, 'i8': np.int64, 'i4': np.int32, 'i2': np.int16}[adt])
    rec.cls('amplitude-dtype=' + adt)
    RT[0] = 1e-4 if adt == 'f4' else 1e-12
    H, S = brute(f, a, edges, mode)
    below = bool((f < edges[0]).any())
    above = bool((f >= edges[-1]).any())
    onedge = bool(np.isin(f, edges).any())
    tag = ('below' if below else '') + ('above' if above else '') + ('edge' if onedge else '') or 'inrange'
    rec.cls('dtype=' + dt)
    f0, a0 = gens.relayout(fin.copy(), lay), gens.relayout(astored.copy(), lay)   # what the routines get (the case stays pristine)
    rec.cls('layout=' + lay)
    ekind = case.get('ekind', 'f8')
    rec.cls('edges-held-as=' + ekind)

    def E():
        if ekind == 'int-array':
            return edges.astype(np.int64)
        if ekind == 'int-list':
            return [int(v) for v in edges]
        if ekind == 'f4':
            return edges.astype(np.float32)
        return edges.copy()
    try:
        one = np.asarray(emd.spectra.hilberthuang_1d(f0, a0, E(), mode=mode))
        # "sparse requested" / "dense requested" in any truthy / falsy spelling (the literal, a numpy boolean, 0 / 1)
        kflag = f.size % 3
        dense = np.asarray(emd.spectra.hilberthuang(f0, a0, E(), mode=mode, return_sparse=[False, np.False_, 0][kflag]))
        sp = emd.spectra.hilberthuang(f0, a0, E(), mode=mode, return_sparse=[True, np.True_, 1][kflag])
        if not hasattr(sp, 'toarray') or hasattr(dense, 'toarray') and not isinstance(dense, np.ndarray):
            raise Violation('C10/return_sparse-flag-not-honoured', 'flag spelling %d' % kflag)
    except Exception as e:
        raise Violation('C10/raises/' + type(e).__name__, repr(e))
    spd_before = np.asarray(sp.toarray()).copy()
    dense_before = dense.copy()
    if a0.flags.writeable and f0.flags.writeable:
        keep_a, keep_f = a0.copy(), f0.copy()
        a0 *= 3             # the caller goes on using its own arrays ...
        f0 += 1.0
        if not (np.array_equal(np.asarray(sp.toarray()), spd_before) and np.array_equal(dense, dense_before)):
            raise Violation('C10/returned-spectrum-aliases-input/%s' % mode,
                            'the spectrum returned earlier changed when the caller modified its amplitude / frequency array')
        a0[...] = keep_a
        f0[...] = keep_f
    if not (np.array_equal(fin, f0) and np.array_equal(astored, a0)):
        raise Violation('C10/input-modified', 'frequency or amplitude array changed by hilberthuang_1d / hilberthuang')
    spd = np.asarray(sp.toarray())
    # the caller keeps these results and asks for the spectrum of other amplitudes on the same grid
    keep = [np.array(one), np.array(dense), np.array(spd)]
    try:
        other = (a0 * 2 + 1).astype(a0.dtype)
        emd.spectra.hilberthuang_1d(f0, other, E(), mode=mode)
        emd.spectra.hilberthuang(f0, other, E(), mode=mode, return_sparse=False)
        emd.spectra.hilberthuang(f0, other, E(), mode=mode, return_sparse=True)
    except Exception as e:
        raise Violation('C10/raises/%s/second-request' % type(e).__name__, repr(e))
    if not (np.array_equal(one, keep[0], equal_nan=True) and np.array_equal(dense, keep[1], equal_nan=True)
            and np.array_equal(np.asarray(sp.toarray()), keep[2], equal_nan=True)):
        raise Violation('C10/earlier-result-changed-by-a-later-request', 'a spectrum returned earlier was overwritten by the next call')
    # one frequency buffer and one edges object serving two records in turn (refilled in place): the second spectrum must
    # be that of the buffer's present contents
    if isinstance(E(), np.ndarray):
        fbuf, ebuf = np.array(fin), E()
        try:
            emd.spectra.hilberthuang(fbuf, astored.copy(), ebuf, mode=mode, return_sparse=False)
            f_other = np.ascontiguousarray(fin[::-1])
            fbuf[...] = f_other
            second = np.asarray(emd.spectra.hilberthuang(fbuf, astored.copy(), ebuf, mode=mode, return_sparse=False))
            fresh = np.asarray(emd.spectra.hilberthuang(f_other.copy(), astored.copy(), E(), mode=mode, return_sparse=False))
        except Exception as e:
            raise Violation('C10/raises/%s/refilled-buffer' % type(e).__name__, repr(e))
        if second.shape != fresh.shape or not np.array_equal(second, fresh, equal_nan=True):
            raise Violation('C10/stale-result-for-a-refilled-frequency-array', '')
    if not close(dense, H):
        where = 'below-first-edge' if below and close(dense[1:], H[1:]) else tag
        raise Violation('C10/hilberthuang/dense-vs-bruteforce/' + where,
                        'f=%r a=%r edges=%r mode=%s got %r expected %r' % (f.tolist()[:6], a.tolist()[:6], edges.tolist()[:6], mode, dense.tolist()[:4], H.tolist()[:4]))
    if not close(spd, H):
        raise Violation('C10/hilberthuang/sparse-vs-bruteforce/' + tag, '')
    if not close(one, S):
        raise Violation('C10/hilberthuang_1d/vs-bruteforce/' + tag,
                        'f=%r edges=%r got %r expected %r' % (f.tolist()[:6], edges.tolist()[:6], one.tolist()[:4], S.tolist()[:4]))
    if not np.allclose(dense.sum(axis=1), one.sum(axis=1), rtol=RT[0], atol=RT[0] * (1 + np.abs(a).sum() + (a ** 2).sum())):
        raise Violation('C10/marginals-disagree/' + tag, '')
    w = a ** 2 if mode == 'energy' else a
    tot = w[(f >= edges[0]) & (f < edges[-1])].sum()
    if not np.isclose(dense.sum(), tot, rtol=RT[0], atol=RT[0] * (1 + np.abs(a).sum() + (a ** 2).sum())):
        raise Violation('C10/total-energy/' + tag, '%r vs %r' % (dense.sum(), tot))
    rec.cls(tag)
    rec.cls('mode=' + mode)
    rec.cls('nbins=%s' % (len(edges) - 1 if len(edges) - 1 < 3 else '3+'))
    return below or above or onedge


def enum_grid(tier):
    for edges in ([1.0, 2.0, 4.0], [0.5, 1.0, 2.0, 4.0]):
        mids = [(edges[i] + edges[i + 1]) / 2 for i in range(len(edges) - 1)]
        vals = sorted(set([-1.0, 0.25] + edges + mids + [5.0]))
        shapes = [(1, 1), (1, 2), (2, 1)] + ([(2, 2)] if tier == 'thorough' else []) + [(3, 1)]
        for (T, M) in shapes:
            if tier == 'quick' and T * M > 2 and (T, M) != (3, 1):
                continue
            use = vals if T * M <= 2 or tier == 'thorough' else vals[::2]
            for fv in itertools.product(use, repeat=T * M):
                f = np.array(fv, dtype=float).reshape(T, M)
                for pat in (0, 1):
                    a = (np.arange(T * M, dtype=float).reshape(T, M) + 1.0) if pat == 0 else \
                        np.full((T, M), 0.5) + np.arange(T * M).reshape(T, M) % 2
                    for mode in ('energy', 'amplitude'):
                        yield {'f': f, 'a': a, 'edges': np.array(edges), 'mode': mode}


@st.composite
def random_case(draw):
    T = draw(st.one_of(st.integers(1, 12), st.integers(1, 200)))
    M = draw(st.integers(1, 6))
    nb = draw(st.one_of(st.integers(1, 4), st.integers(1, 40)))
    scale = draw(st.sampled_from(['linear', 'log']))
    # first edge at exactly zero and bins reaching into negative frequencies are valid bin sets (instantaneous frequencies
    # of noisy IMFs are negative now and then); log spacing needs a positive start
    lo = draw(st.sampled_from([0.5, 1.0, 2.0, 0.1, 0.0, 0, -2.0]))
    hi = lo + draw(st.sampled_from([0.5, 9.0, 49.0]))
    if lo <= 0:
        scale = 'linear'
    import emd
    edges, _ = emd.spectra.define_hist_bins(lo, hi, nb, scale=scale)
    edges = np.asarray(edges, dtype=float)
    # how the caller holds the edges: a float64 array, whole numbers as an integer array / a list of ints, or float32
    ekind = draw(st.sampled_from(['f8', 'f8', 'f8', 'int-array', 'int-list', 'f4']))
    if ekind.startswith('int'):
        step = draw(st.sampled_from([1, 2, 5]))
        lo = int(np.floor(lo))
        edges = (lo + step * np.arange(nb + 1)).astype(float)
        hi = edges[-1]
    elif ekind == 'f4':
        edges = edges.astype(np.float32).astype(float)
        if np.any(np.diff(edges) <= 0):
            ekind = 'f8'
    k = draw(st.integers(0, 2**32 - 1))
    rng = np.random.default_rng(k)
    f = lo - 0.3 * (hi - lo) + 1.6 * (hi - lo) * rng.random((T, M))
    snap = rng.random((T, M)) < draw(st.sampled_from([0.0, 0.3, 0.3, 1.0]))
    f[snap] = edges[rng.integers(0, len(edges), int(snap.sum()))]
    if draw(st.booleans()):
        f[rng.random((T, M)) < 0.1] *= -1
    a = np.round((rng.random((T, M)) - draw(st.sampled_from([0.0, 0.0, 0.0, 0.3, 1.0]))) * 3, 4)     # also signed / negative
    return {'f': f, 'a': a, 'edges': edges, 'mode': draw(st.sampled_from(['energy', 'amplitude'])),
            'layout': draw(st.sampled_from(gens.LAYOUTS)), 'dtype': draw(st.sampled_from(['f8', 'f8', 'f4'])),
            'ekind': ekind,
            'adtype': draw(st.sampled_from(['f8', 'f8', 'f8', 'i8', 'i4', 'i2', 'f4'])),
            'again': draw(st.sampled_from([1.0, 100.0, 9000.0]))}


CLAUSES = [
    Clause('C10.grid', oracle, enumerate=enum_grid, quick=None, thorough=None, shards=(8, 16), exhaustive=True,
           nt_rule='>=1 sample out of range or exactly on an edge'),
    Clause('C10.random', oracle, strategy=random_case(), quick=2400, thorough=60000, shards=(4, 16),
           nt_rule='>=1 sample out of range or exactly on an edge'),
]
