"""C05 - extrema are exact and envelopes interpolate them on the sample grid."""
import itertools

import numpy as np
from hypothesis import strategies as st

from ..core import Clause, Violation, Discard
from .. import gens, refmodel

RULE = ("Cases: (exhaustive) every sequence of length 3..7 (quick) / 3..9 (thorough) over {0,1,2}; each case runs "
        "get_padded_extrema for pad_width 0..5 x parabolic on/off x {peaks,troughs,abs_peaks} (36 calls) and "
        "interp_envelope for pad_width 1..5 x parabolic on/off x {upper,lower,combined} x {splrep,pchip,mono_pchip} "
        "(90 calls); (random) Hypothesis signals up to 300 samples from all families (ties, plateaus, edge plateaus) "
        "with drawn pad width, memory layout (contiguous / strided view / read-only), storage dtype (float64 / float32 / int64 / int16), custom np.pad option dicts from the tutorials, refinement and method. Oracle: None iff "
        "<2 strict extrema of the kind; interior extrema == strict local maxima/minima (parabola vertex within +-1 "
        "sample when refined); locations strictly increasing, first <0 and last >N-1 when padded; whole vectors == "
        "np.pad of the interior with the given options; envelope has N values equal (1e-9) to the interpolant "
        "rebuilt from the returned extrema AND from the reference extrema, evaluated at t=0..N-1; unrefined "
        "envelopes pass through their extrema. Non-trivial: >=2 extrema of some requested kind.")
ASSUMPTIONS = ["scipy splrep/splev and PchipInterpolator are the trusted interpolants",
               "pad_width=0 envelopes cannot reach the record ends: a clean exception is accepted there"]

MODES_X = ['peaks', 'troughs', 'abs_peaks']
MODES_E = {'upper': 'peaks', 'lower': 'troughs', 'combined': 'abs_peaks'}
METHODS = ['splrep', 'pchip', 'mono_pchip']


def _arg(x):
    """What is handed to the routine: a fresh copy for ordinary arrays, the array itself when its memory layout is the point."""
    return x if (not x.flags['C_CONTIGUOUS'] or not x.flags.writeable) else x.copy()


def check_extrema(emd, x, mode, pad, par, lpo, mpo, rec):
    xt, x = x, np.asarray(x, dtype=float)       # xt: as stored (handed to emd); x: the same values as floats (reference)
    N = x.size
    tag = '%s/pad=%s/%s' % (mode, 'zero' if pad == 0 else 'pos', 'parabolic' if par else 'plain')
    kw = {}
    if lpo is not None:
        kw['loc_pad_opts'] = dict(lpo)
    if mpo is not None:
        kw['mag_pad_opts'] = dict(mpo)
    iloc, imag = refmodel.find_extrema(x, mode, par)
    try:
        rl, rm = refmodel.padded_extrema(x, mode, pad, par, lpo, mpo)
        ref_err = None
    except Exception as e:   # np.pad rejects the option set
        ref_err = e
    try:
        locs, mags = emd.sift.get_padded_extrema(_arg(xt), pad_width=pad, mode=mode, parabolic_extrema=par, **kw)
    except Exception as e:
        if ref_err is not None:
            rec.cls('np.pad-rejects-options')
            return 0
        raise Violation('C05/get_padded_extrema/raises/%s/%s' % (type(e).__name__, tag), '%r on %r' % (e, x.tolist()[:20]))
    if ref_err is not None:
        raise Discard('np.pad rejected the options in the reference only')
    if iloc.size < 2:
        if locs is not None or mags is not None:
            raise Violation('C05/get_padded_extrema/not-None-with-<2-extrema/' + tag, '%r on %r' % (locs, x.tolist()[:20]))
        return 0
    if locs is None:
        raise Violation('C05/get_padded_extrema/None-with->=2-extrema/' + tag, 'on %r' % (x.tolist()[:20],))
    locs = np.asarray(locs, dtype=float)
    mags = np.asarray(mags, dtype=float)
    if locs.shape != mags.shape or locs.ndim != 1:
        raise Violation('C05/get_padded_extrema/shape/' + tag, '')
    if locs.shape != rl.shape:
        # the number of padding passes is decided by `last location >= N` / `first location < 0`; with refined
        # (fractional) locations that comparison can sit on a rounding knife-edge - then either count is right
        edge = min(abs(v - b) for b in (0.0, float(N - 1)) for v in (rl.min(), rl.max(), locs.min(), locs.max()))
        short, long_ = (locs, rl) if locs.size < rl.size else (rl, locs)
        off = (long_.size - short.size) // 2
        if par and edge <= 1e-9 * N and (long_.size - short.size) % 2 == 0 and \
                np.allclose(long_[off:long_.size - off], short, rtol=0, atol=1e-9):
            rec.cls('padding-pass-count-on-a-rounding-knife-edge')
            return -1
        raise Violation('C05/get_padded_extrema/length/' + tag, 'got %d expected %d on %r' % (locs.size, rl.size, x.tolist()[:20]))
    npad = (locs.size - iloc.size) // 2
    mid_l, mid_m = locs[npad:locs.size - npad], mags[npad:mags.size - npad]
    if par:
        ok = np.allclose(mid_l, iloc, rtol=0, atol=1e-9) and np.allclose(mid_m, imag, rtol=1e-9, atol=1e-9) and \
            np.all(np.abs(mid_l - np.round(iloc)) <= 1.0 + 1e-9)
        if not ok and mid_l.shape == iloc.shape and \
                refmodel.rounding_sensitive(lambda: refmodel.find_extrema(x, mode, True)[0]) > 1e-10:
            raise Discard('parabolic refinement of a near-flat extremum: the vertex is decided by rounding')
    else:
        ok = np.array_equal(mid_l, iloc) and np.array_equal(mid_m, imag)
    if not ok:
        raise Violation('C05/get_padded_extrema/interior-extrema/' + tag,
                        'got %r/%r expected %r/%r on %r' % (mid_l.tolist()[:8], mid_m.tolist()[:8], iloc.tolist()[:8], imag.tolist()[:8], x.tolist()[:20]))
    if not np.all(np.diff(locs) > 0):
        if lpo is None:
            raise Violation('C05/get_padded_extrema/not-strictly-increasing/' + tag, '%r' % (locs.tolist()[:12],))
    if pad > 0 and (not locs[0] < 0 or not locs[-1] > N - 1):
        raise Violation('C05/get_padded_extrema/ends-not-covered/' + tag, 'locs %r N=%d' % (locs.tolist()[:12], N))
    if not (np.allclose(locs, rl, rtol=0, atol=1e-9) and np.allclose(mags, rm, rtol=1e-9, atol=1e-9)):
        raise Violation('C05/get_padded_extrema/pads-differ-from-np.pad/' + tag,
                        'got %r/%r expected %r/%r' % (locs.tolist()[:10], mags.tolist()[:10], rl.tolist()[:10], rm.tolist()[:10]))
    return 1


def check_envelope(emd, x, which, method, pad, par, lpo, mpo, rec, sequence=False):
    xt, x = x, np.asarray(x, dtype=float)
    N = x.size
    tag = '%s/%s/%s' % (which, method, 'parabolic' if par else 'plain')
    eo = {'pad_width': pad, 'parabolic_extrema': par}
    if lpo is not None:
        eo['loc_pad_opts'] = dict(lpo)
    if mpo is not None:
        eo['mag_pad_opts'] = dict(mpo)
    iloc, imag = refmodel.find_extrema(x, MODES_E[which], par)
    try:
        rl, rm = refmodel.padded_extrema(x, MODES_E[which], pad, par, lpo, mpo)
        ref_env = None if rl is None else refmodel.interpolate(rl, rm, np.arange(N), method)
        ref_err = None
    except Exception as e:
        ref_err = e
    eo0 = {k: (dict(v) if isinstance(v, dict) else v) for k, v in eo.items()}
    try:
        out = emd.sift.interp_envelope(_arg(xt), mode=which, interp_method=method, extrema_opts=eo,
                                       ret_extrema=[True, 1, np.True_][N % 3])
    except Exception as e:
        if ref_err is not None or pad == 0:
            rec.cls('clean-exception(pad=0 or np.pad/scipy rejects)')
            return 0
        raise Violation('C05/interp_envelope/raises/%s/%s' % (type(e).__name__, tag), '%r on %r' % (e, x.tolist()[:20]))
    if eo != eo0:
        raise Violation('C05/interp_envelope/options-modified', '')
    if ref_err is not None:
        raise Discard('np.pad/scipy rejected the options in the reference only')
    if iloc.size < 2:
        if out is not None:
            raise Violation('C05/interp_envelope/not-None-with-<2-extrema/' + tag, '')
        return 0
    if out is None:
        raise Violation('C05/interp_envelope/None-with->=2-extrema/' + tag, 'on %r' % (x.tolist()[:20],))
    env, (locs, mags) = out
    if sequence:
        # the caller keeps this envelope and asks for further ones of equally long signals (another signal, then the same
        # signal again after scribbling on the envelope it holds): what it holds must stay what it was given, and the
        # repeated request must give the same envelope again
        held = env
        keep = np.array(env, dtype=float)
        other = np.asarray(x)[::-1] * -0.5 + 1.0
        try:
            emd.sift.interp_envelope(other.copy(), mode=which, interp_method=method, extrema_opts=dict(eo0))
            if not np.array_equal(np.asarray(held, dtype=float), keep):
                raise Violation('C05/interp_envelope/returned-envelope-changed-by-a-later-call/' + which, '')
            if isinstance(held, np.ndarray) and held.flags.writeable:
                held *= 3.0
            again = emd.sift.interp_envelope(_arg(xt), mode=which, interp_method=method, extrema_opts=dict(eo0))
        except Violation:
            raise
        except Exception as e:
            raise Violation('C05/interp_envelope/later-call-raises/' + type(e).__name__, repr(e))
        if again is None or not np.array_equal(np.asarray(again, dtype=float), keep):
            raise Violation('C05/interp_envelope/repeated-call-differs-after-caller-edited-the-earlier-result/' + which, '')
        env = keep
    env = np.asarray(env, dtype=float)
    if env.shape != (N,):
        raise Violation('C05/interp_envelope/length/' + tag, 'got %r for N=%d' % (env.shape, N))
    scale = 1e-9 * (1 + np.abs(x).max())
    if pad == 0:
        return 1
    knife = par and np.asarray(locs).size != rl.size and \
        min(abs(v - b) for b in (0.0, float(N - 1)) for v in (rl.min(), rl.max(), np.min(locs), np.max(locs))) <= 1e-9 * N
    if knife:
        rec.cls('padding-pass-count-on-a-rounding-knife-edge')
    if not knife and not np.allclose(env, ref_env, rtol=1e-9, atol=scale):
        i = int(np.argmax(np.abs(env - ref_env)))
        raise Violation('C05/interp_envelope/not-interpolant-at-sample-times/' + tag,
                        'sample %d: got %r expected %r (max dev %.3g) on %r' % (i, env[i], ref_env[i], np.abs(env - ref_env).max(), x.tolist()[:20]))
    own = refmodel.interpolate(np.asarray(locs, dtype=float), np.asarray(mags, dtype=float), np.arange(N), method)
    if not np.allclose(env, own, rtol=1e-9, atol=scale):
        raise Violation('C05/interp_envelope/not-interpolant-of-returned-extrema/' + tag, '')
    if not par:
        li = iloc.astype(int)
        tgt = np.abs(x[li]) if which == 'combined' else x[li]
        if not np.allclose(env[li], tgt, rtol=1e-9, atol=scale):
            raise Violation('C05/interp_envelope/misses-extrema/' + tag, '')
    return 1


def oracle_exhaustive(case, rec):
    import emd
    x = np.asarray(case['x'], dtype=float)
    nt = 0
    for pad in range(6):
        for par in (False, True):
            for mode in MODES_X:
                nt += max(check_extrema(emd, x, mode, pad, par, None, None, rec), 0)
    for pad in range(1, 6):
        for par in (False, True):
            for which in MODES_E:
                for method in METHODS:
                    nt += check_envelope(emd, x, which, method, pad, par, None, None, rec)
    rec.cls('calls', 126)
    return nt > 0


def enum_seqs(tier):
    L = 7 if tier == 'quick' else 9
    for n in range(3, L + 1):
        for tup in itertools.product((0.0, 1.0, 2.0), repeat=n):
            yield {'x': np.array(tup)}


MAG_OPTS = [None, {'mode': 'median', 'stat_length': 1}, {'mode': 'median', 'stat_length': 3}, {'mode': 'reflect'},
            {'mode': 'edge'}, {'mode': 'mean', 'stat_length': 2}]
LOC_OPTS = [None, {'mode': 'reflect', 'reflect_type': 'odd'}]


@st.composite
def random_case(draw):
    sig = draw(st.one_of(gens.any_signal(3, 300), gens.any_signal(3, 300),
                         gens.family_signal(12, 300, families=('burst',))))
    return {'sig': sig, 'pad': draw(st.integers(0, 5)), 'par': draw(st.booleans()),
            'mode': draw(st.sampled_from(MODES_X)), 'which': draw(st.sampled_from(sorted(MODES_E))),
            'method': draw(st.sampled_from(METHODS)), 'mpo': draw(st.sampled_from(MAG_OPTS)),
            'lpo': draw(st.sampled_from(LOC_OPTS)), 'two_d': draw(st.booleans()),
            'layout': draw(st.sampled_from(gens.LAYOUTS)), 'dtype': draw(st.sampled_from(['f8', 'f8', 'f8', 'f4', 'i8', 'i2'])),
            'floor': draw(st.sampled_from([None, None, None, None, 1e-9, 1e-13, 1e-16]))}


def oracle_random(case, rec):
    import emd
    x = gens.sig_of(case['sig'])
    if not np.all(np.isfinite(x)):
        raise Discard('non-finite')
    dt = case.get('dtype', 'f8')
    if dt != 'f8':        # the same kind of signal stored as float32 / integers (scaled by 100 and rounded, like ADC counts)
        x = gens.sig_of(dict(case['sig'], dtype=dt)) if 'family' in case['sig'] else \
            (x.astype(np.float32) if dt == 'f4' else np.round(x * 100).astype(np.int64 if dt == 'i8' else np.int16))
    rec.cls('dtype=' + dt)
    if dt != 'f8' and case['mpo'] and case['mpo'].get('stat_length', 1) != 1:
        raise Discard('np.pad computes the statistic of the magnitudes (mean / median over > 1 values) in their storage dtype '
                      '(integers, float32): the padded values then depend on the dtype by numpy\'s own definition')
    if case.get('floor') and dt == 'f8':
        # plateaus carrying only a rounding-level ripple (what sift iterates look like once the oscillation is gone): the
        # ripple's extrema are strict extrema all the same, and their refined locations must stay ordered
        xf_ = np.asarray(x, dtype=float)
        x = np.round(xf_, 1) + case['floor'] * np.random.default_rng(xf_.size).standard_normal(xf_.size)
        rec.cls('rounding-level ripple on plateaus')
    x = gens.relayout(x, case.get('layout', 'C'))     # the routines receive x.copy() - see below - or the view itself
    rec.cls('layout=' + case.get('layout', 'C'))
    if case.get('floor') and dt == 'f8' and case['par']:
        # refined extrema of a rounding-level ripple are, by nature, sensitive to the last bit (values, and even the number
        # of padding passes): only the structural claims are asserted here - padded extrema strictly ordered in time, and an
        # envelope with one finite value per sample
        try:
            locs, mags = emd.sift.get_padded_extrema(_arg(x), pad_width=case['pad'], mode=case['mode'], parabolic_extrema=True)
        except Exception as e:
            raise Violation('C05/get_padded_extrema/raises/%s/rounding-level-ripple' % type(e).__name__, repr(e))
        if locs is not None and np.any(np.diff(np.asarray(locs, dtype=float)) <= 0):
            raise Violation('C05/get_padded_extrema/not-strictly-increasing/rounding-level-ripple', repr(np.asarray(locs)[:12].tolist()))
        nt = 1 if locs is not None else 0
        try:
            env = emd.sift.interp_envelope(_arg(x), mode=case['which'], interp_method=case['method'],
                                           extrema_opts={'pad_width': max(case['pad'], 1), 'parabolic_extrema': True})
        except Exception as e:
            raise Violation('C05/interp_envelope/raises/%s/rounding-level-ripple' % type(e).__name__, repr(e))
        if env is not None and (np.asarray(env).shape != (np.asarray(x).size,) or not np.all(np.isfinite(env))):
            raise Violation('C05/interp_envelope/shape-or-nonfinite/rounding-level-ripple', '')
        rec.cls('family=' + case['sig'].get('family', 'elementwise'))
        return nt > 0
    nt = max(check_extrema(emd, x, case['mode'], case['pad'], case['par'], case['lpo'], case['mpo'], rec), 0)
    nt += check_envelope(emd, x, case['which'], case['method'], max(case['pad'], 1), case['par'], case['lpo'], case['mpo'], rec,
                         sequence=True)
    if case['pad'] == 0:
        check_envelope(emd, x, case['which'], case['method'], 0, case['par'], case['lpo'], case['mpo'], rec)
    # one work buffer holding two records in turn (refilled in place between the requests): what is found in it the
    # second time must be what a fresh array with the same contents gives - extrema and envelopes alike
    xf = np.asarray(x, dtype=float)
    if xf.size >= 3:
        buf = np.array(xf, dtype=float)
        other = xf[::-1] * -0.5 + 1.0
        eo_ = {'pad_width': max(case['pad'], 1), 'parabolic_extrema': case['par']}
        try:
            for md in ('peaks', 'troughs'):
                emd.sift.get_padded_extrema(buf, pad_width=eo_['pad_width'], mode=md, parabolic_extrema=case['par'])
            emd.sift.interp_envelope(buf, mode='upper', interp_method=case['method'], extrema_opts=dict(eo_))
            buf[...] = other
            for md in ('peaks', 'troughs'):
                a = emd.sift.get_padded_extrema(buf, pad_width=eo_['pad_width'], mode=md, parabolic_extrema=case['par'])
                b = emd.sift.get_padded_extrema(other.copy(), pad_width=eo_['pad_width'], mode=md, parabolic_extrema=case['par'])
                same = all((p_ is None and q_ is None) or (p_ is not None and q_ is not None and np.array_equal(p_, q_))
                           for p_, q_ in zip(a, b))
                if not same:
                    raise Violation('C05/get_padded_extrema/stale-result-for-a-refilled-array/' + md,
                                    'the same array object, overwritten in place, gives other extrema than a fresh array with the same contents')
            for wh in ('upper', 'lower'):
                a = emd.sift.interp_envelope(buf, mode=wh, interp_method=case['method'], extrema_opts=dict(eo_))
                b = emd.sift.interp_envelope(other.copy(), mode=wh, interp_method=case['method'], extrema_opts=dict(eo_))
                if (a is None) != (b is None) or (a is not None and not np.array_equal(a, b)):
                    raise Violation('C05/interp_envelope/stale-result-for-a-refilled-array/' + wh, '')
        except Violation:
            raise
        except Exception:
            pass        # option combinations np.pad / scipy reject are judged by the checks above
    rec.cls('family=' + case['sig'].get('family', 'elementwise'))
    rec.cls('parabolic' if case['par'] else 'plain')
    rec.cls('custom-pad' if case['mpo'] or case['lpo'] else 'default-pad')
    return nt > 0


CLAUSES = [
    Clause('C05.exhaustive', oracle_exhaustive, enumerate=enum_seqs, quick=None, thorough=None, shards=(16, 16),
           exhaustive=True, nt_rule='>=2 extrema of a requested kind in some call'),
    Clause('C05.random', oracle_random, strategy=random_case(), quick=4000, thorough=100000, shards=(4, 16),
           nt_rule='>=2 extrema of the requested kind'),
]
