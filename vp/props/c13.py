"""C13 - good cycles are exactly those meeting the documented phase criteria."""
import numpy as np
from hypothesis import strategies as st

from ..core import Clause, Violation, Discard
from .. import gens, refmodel
from .c12 import check_column

RULE = ("Cases: (exhaustive) every phase sequence of length 1..L over {0.1,1.5,3.1,4.7,6.2} (L=6 quick, "
        "8 thorough) x phase_edge in {pi/12,pi/6,pi/4,pi/2}; (mask) Hypothesis-drawn long/short phases x "
        "phase_edge (incl. exactly 0) x phase_step (incl. exactly 0) x boolean masks {none, random, block} x phase_step; (is_good) drawn single segments fed "
        "to is_good; (container) Cycles(phase, use_cache in {True,False}[, phase_edge]).metrics['is_good'] per cycle. "
        "Oracle: a wrap-delimited segment must be labelled iff strictly increasing, 0<p[0]<edge, "
        "2pi-edge<p[-1]<2pi and mask all-true (boundary equalities are don't-care: docstring strict, code "
        "inclusive); labels form an order-preserving renumbering of the accepted subset of the partition. "
        "Non-trivial: >=1 accepted and >=1 rejected segment in the case.")
ASSUMPTIONS = ["boolean vector masks only (the documented kind)",
               "a container built with phase_edge=e must flag its cycles by the criteria with that e (half of the random container cases)"]

EDGES = [np.pi / 12, np.pi / 6, np.pi / 4, np.pi / 2]


def expected_segments(p, step, edge, mask):
    segs = refmodel.cycle_partition(p, step)
    out = []
    for a, b in segs:
        v, reasons = refmodel.good_verdict(p[a:b], edge)
        if mask is not None and not np.all(mask[a:b]):
            v = False
            reasons = reasons + ['mask']
        out.append(((a, b), v, reasons))
    return out


def oracle_vector(case, rec):
    import emd
    p = np.asarray(case['p'], dtype=float)
    step = case.get('step', 1.5 * np.pi)
    edge = case.get('edge', np.pi / 12)
    mask = case.get('mask')
    p2 = p if p.ndim == 2 else p[:, None]
    if np.any(np.abs(np.abs(np.diff(p2, axis=0)) - step) <= 1e-12):
        raise Discard('a phase difference equals phase_step exactly')
    kw = {}
    if 'step' in case:
        kw['phase_step'] = step
    if 'edge' in case:
        kw['phase_edge'] = edge
    lay = case.get('layout', 'C')
    if case.get('imf'):
        # a waveform handed over alongside the phase: the property's criteria are about the phase (and the mask) alone
        w = {'cos': np.cos(p2), 'flat': np.ones_like(p2), 'noise': np.random.default_rng(p2.shape[0]).standard_normal(p2.shape)}[case['imf']]
        kw['imf'] = w if p.ndim == 2 else w[:, 0]
        rec.cls('imf=' + case['imf'])
    if mask is not None:
        mask = np.asarray(mask, dtype=bool)
        kw['mask'] = gens.relayout(mask.copy(), lay)
    # "good cycles requested" = any truthy flag: the literal True, a numpy boolean (e.g. an element of a boolean options
    # array), or 1
    flag = [True, np.bool_(True), 1, True][(p2.shape[0] + (0 if mask is None else 1)) % 4]
    rec.cls('return_good=%s' % type(flag).__name__)
    try:
        out = np.asarray(emd.cycles.get_cycle_vector(gens.relayout(p.copy(), lay), return_good=flag, **kw))
        if mask is not None and not np.array_equal(np.asarray(kw['mask']), mask):
            raise Violation('C13/get_cycle_vector/mask-modified', 'the validity mask passed in was changed by the call')
    except Exception as e:
        raise Violation('C13/get_cycle_vector/raises/%s%s' % (type(e).__name__, '/mask' if mask is not None else ''),
                        repr(e))
    if out.shape != p2.shape:
        raise Violation('C13/get_cycle_vector/shape', '%r vs %r' % (out.shape, p2.shape))
    n_acc = n_rej = 0
    for c in range(p2.shape[1]):
        lab = out[:, c]
        check_column(lab, p2[:, c], step, True, 'C13/get_cycle_vector')
        exp = expected_segments(p2[:, c], step, edge, mask)
        for (a, b), v, reasons in exp:
            got = lab[a] != -1
            if v is None:
                rec.cls('dontcare_boundary')
                continue
            if v:
                n_acc += 1
            else:
                n_rej += 1
                for r in reasons:
                    rec.cls('reject:' + r)
            if got and not v:
                raise Violation('C13/get_cycle_vector/bad-accepted/' + '+'.join(reasons),
                                'segment [%d,%d) %r labelled' % (a, b, p2[a:b, c].tolist()[:12]))
            if v and not got:
                raise Violation('C13/get_cycle_vector/good-rejected',
                                'segment [%d,%d) %r not labelled' % (a, b, p2[a:b, c].tolist()[:12]))
        # order preserving renumbering (given check_column: consecutive labels in temporal order)
    rec.cls('mask' if mask is not None else 'nomask')
    rec.cls('layout=' + lay)
    return n_acc >= 1 and n_rej >= 1


def oracle_is_good(case, rec):
    import emd
    seg = np.asarray(case['seg'], dtype=float)
    edge = case['edge']
    v, reasons = refmodel.good_verdict(seg, edge)
    try:
        got = emd.cycles.is_good(seg.copy(), phase_edge=edge)
        allc = emd.cycles.is_good(seg.copy(), phase_edge=edge, ret_all_checks=True)
    except Exception as e:
        raise Violation('C13/is_good/raises/' + type(e).__name__, repr(e))
    if bool(np.all(allc)) != bool(got):
        raise Violation('C13/is_good/all-checks-disagree', '%r vs %r' % (allc, got))
    if v is None:
        raise Discard('boundary equality (docstring strict, code inclusive)')
    if bool(got) != v:
        raise Violation('C13/is_good/%s/%s' % ('bad-accepted' if got else 'good-rejected', '+'.join(reasons)),
                        'segment %r edge %r' % (seg.tolist()[:12], edge))
    rec.cls('good' if v else 'bad:' + '+'.join(reasons))
    return True


def oracle_container(case, rec):
    import emd
    p = np.asarray(case['p'], dtype=float)
    step = 1.5 * np.pi
    if np.any(np.abs(np.abs(np.diff(p)) - step) <= 1e-12):
        raise Discard('a phase difference equals phase_step exactly')
    segs = refmodel.cycle_partition(p, step)
    if not segs:
        raise Discard('no wrap: container has no cycles')
    res = []
    edge = case.get('edge', np.pi / 12)
    ekw = {'phase_edge': edge} if 'edge' in case else {}
    if case.get('cmode'):
        ekw['mode'] = case['cmode']          # the container's iteration mode; the quality flag is about the cycles themselves
        rec.cls('container mode=' + case['cmode'])
    rec.cls('phase_edge=%s' % ('default' if 'edge' not in case else 'given'))
    for cache in (True, False):
        try:
            C = emd.cycles.Cycles(p.copy()[:, None] if case.get('column') else p.copy(), use_cache=cache, **ekw)
            ig = np.asarray(C.metrics['is_good'])
        except Exception as e:
            raise Violation('C13/Cycles/raises/%s/cache=%s' % (type(e).__name__, cache), repr(e))
        if len(ig) != len(segs):
            raise Violation('C13/Cycles/is_good-length/cache=%s' % cache, '%d entries for %d cycles' % (len(ig), len(segs)))
        res.append(ig)
        for j, (a, b) in enumerate(segs):
            v, reasons = refmodel.good_verdict(p[a:b], edge)
            if v is None:
                continue
            if bool(ig[j]) != v:
                raise Violation('C13/Cycles/is_good-flag/cache=%s/%s%s' % (cache, 'last-cycle' if j == len(segs) - 1 else 'cycle',
                                                                            '' if 'edge' not in case else '/container-built-with-its-own-phase_edge'),
                                'cycle %d [%d,%d) flag %r expected %r (%s)' % (j, a, b, ig[j], v, reasons))
    verdicts = [refmodel.good_verdict(p[a:b], edge)[0] for a, b in segs]
    rec.cls('ncycles=%s' % (len(segs) if len(segs) < 6 else '6+'))
    return (True in verdicts) and (False in verdicts)


def enum_alphabet(tier):
    L = 6 if tier == 'quick' else 8
    for p in gens.alphabet_phases(L):
        for e in EDGES:
            yield {'p': p, 'edge': e}


def enum_container(tier):
    L = 6 if tier == 'quick' else 7
    for p in gens.alphabet_phases(L, minlen=2):
        yield {'p': p}


STEPS = [np.pi, 1.5 * np.pi, 1.9 * np.pi]


def negative_starts(t):
    """Monotone cycles in which every other cycle begins a little *below* zero (an unwrapped-looking start): such a segment
    does not start within the tolerance above 0 and must be rejected. No sample exceeds 2pi, so nothing is re-wrapped."""
    p, lens = t
    p = p.copy()
    starts = np.r_[0, np.cumsum(lens)[:-1]]
    for i, s0 in enumerate(starts):
        if i % 2 == 1:
            p[s0] = -0.02 - 0.01 * i
    return p


@st.composite
def mask_case(draw):
    p = draw(st.one_of(gens.synth_phase(max_n=300), gens.short_phase(40, 2),
                       gens.monotone_cycles_phase(2, 8, 3, 30).map(lambda t: t[0]),
                       gens.monotone_cycles_phase(2, 8, 3, 30).map(negative_starts)))
    n = p.shape[0]
    kind = draw(st.sampled_from(['none', 'random', 'block', 'random']))
    # a zero tolerance (no cycle can qualify) and a zero wrap threshold (every change of phase is a wrap) are valid values
    case = {'p': p, 'edge': draw(st.sampled_from(EDGES + [0, 0.0])), 'step': draw(st.sampled_from(STEPS + [0, 0.0])),
            'layout': draw(st.sampled_from(['C', 'C', 'F', 'strided', 'readonly'])),
            'imf': draw(st.sampled_from([None, None, 'cos', 'flat', 'noise']))}
    if kind == 'random':
        k = draw(st.integers(0, 2**32 - 1))
        dens = draw(st.sampled_from([0.5, 0.9, 0.98]))
        case['mask'] = np.random.default_rng(k).random(n) < dens
    elif kind == 'block':
        a = draw(st.integers(0, n - 1))
        b = draw(st.integers(a, n))
        m = np.ones(n, dtype=bool)
        m[a:b] = False
        case['mask'] = m
    return case


@st.composite
def seg_case(draw):
    edge = draw(st.sampled_from(EDGES))
    kind = draw(st.sampled_from(['mono', 'free', 'near']))
    n = draw(st.integers(1, 20))
    if kind == 'free':
        seg = draw(gens.short_phase(20, 1))
    else:
        k = draw(st.integers(0, 2**32 - 1))
        rng = np.random.default_rng(k)
        lo = draw(st.sampled_from([0.01, edge * 0.5, edge * 0.99, edge * 1.01, edge * 2, -0.01, -edge * 0.5, -edge * 1.5]))
        hi = 2 * np.pi - draw(st.sampled_from([0.01, edge * 0.5, edge * 0.99, edge * 1.01, edge * 2]))
        seg = np.sort(np.r_[lo, hi, lo + (hi - lo) * rng.random(max(n - 2, 0))])[:max(n, 1)]
        if n >= 2:
            seg[-1] = hi
        if kind == 'near' and n >= 3 and draw(st.booleans()):
            i = draw(st.integers(1, n - 1))
            seg[i] = seg[i - 1]      # a tie: not strictly increasing
    return {'seg': np.asarray(seg, dtype=float), 'edge': edge}


container_strategy = st.fixed_dictionaries({
    'p': st.one_of(gens.synth_phase(max_n=300, max_cols=1).map(lambda a: a[:, 0]),
                   gens.monotone_cycles_phase(2, 8, 3, 40).map(lambda t: t[0]),
                   gens.short_phase(30, 2))},
    optional={'edge': st.sampled_from(EDGES), 'cmode': st.sampled_from(['cycle', 'augmented', 'augmented']),
              'column': st.booleans()})

CLAUSES = [
    Clause('C13.exhaustive', oracle_vector, enumerate=enum_alphabet, quick=None, thorough=None,
           shards=(8, 16), exhaustive=True, nt_rule='>=1 accepted and >=1 rejected segment'),
    Clause('C13.mask', oracle_vector, strategy=mask_case(), quick=2400, thorough=60000, shards=(4, 16),
           nt_rule='>=1 accepted and >=1 rejected segment'),
    Clause('C13.is_good', oracle_is_good, strategy=seg_case(), quick=3000, thorough=60000, shards=(2, 8),
           nt_rule='every decided segment'),
    Clause('C13.container_exhaustive', oracle_container, enumerate=enum_container, quick=None, thorough=None,
           shards=(8, 16), exhaustive=True, nt_rule='>=1 good and >=1 bad cycle'),
    Clause('C13.container', oracle_container, strategy=container_strategy, quick=1200, thorough=30000,
           shards=(4, 16), nt_rule='>=1 good and >=1 bad cycle'),
]
