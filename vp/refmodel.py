"""Reference models: written from the property statements and the docstrings,
on numpy/scipy only, independent of the emd code they are compared with."""
import math

import numpy as np

TWO_PI = 2 * np.pi

# ----------------------------------------------------------------------------
# cycles (C12, C13, C14, C15, C16)


def wrap_positions(p, phase_step):
    """Indices i (1..N-1) at which the wrapped phase jumps by more than phase_step."""
    return [i for i in range(1, len(p)) if abs(p[i] - p[i - 1]) > phase_step]


def cycle_partition(p, phase_step):
    """Half-open segments [a, b) delimited by wraps / record ends; [] if no wrap."""
    w = wrap_positions(p, phase_step)
    if not w:
        return []
    b = [0] + w + [len(p)]
    return [(b[j], b[j + 1]) for j in range(len(b) - 1)]


def good_verdict(seg, phase_edge, tol=1e-12):
    """Three-valued verdict on one wrap-delimited segment.

    True / False when the documented criteria decide, None when the segment
    sits exactly on a boundary value on which docstring (strict) and code
    (inclusive) disagree and the property does not choose.
    Returns (verdict, reasons) - reasons names the failed criteria.
    """
    reasons = []
    dontcare = False
    d = np.diff(seg)
    if not np.all(d > 0):
        reasons.append('monotone')
    s, e = float(seg[0]), float(seg[-1])
    lo_edge = phase_edge
    hi_edge = TWO_PI - phase_edge
    # start within (0, edge)
    if abs(s - 0.0) <= tol or abs(s - lo_edge) <= tol:
        dontcare = True
    elif not (0.0 < s < lo_edge):
        reasons.append('start')
    if abs(e - TWO_PI) <= tol or abs(e - hi_edge) <= tol:
        dontcare = True
    elif not (hi_edge < e < TWO_PI):
        reasons.append('end')
    if reasons:
        return False, reasons
    if dontcare:
        return None, reasons
    return True, reasons


# ----------------------------------------------------------------------------
# sifting (C01-C08): extrema, padding, envelopes, single-IMF extraction

from scipy import interpolate as _interp  # noqa: E402


def strict_extrema(x, kind='max'):
    """Interior indices i with x[i] strictly greater (smaller) than both neighbours."""
    x = np.asarray(x, dtype=float)
    if x.size < 3:
        return np.zeros(0, dtype=int)
    c = x[1:-1]
    if kind == 'max':
        m = (c > x[:-2]) & (c > x[2:])
    else:
        m = (c < x[:-2]) & (c < x[2:])
    return np.where(m)[0] + 1


PARABOLIC_VARIANT = ['closed']     # 'closed' | 'matrix': two algebraically equal ways to get the vertex; comparing
                                   # them measures how sensitive a result is to rounding in the refinement
_W_INV = np.array([[.5, -1, .5], [-5 / 2, 4, -3 / 2], [3, -3, 1]])


def parabolic_vertex(ym, y0, yp):
    """Vertex (offset from the centre sample, value) of the parabola through (-1,ym),(0,y0),(1,yp)."""
    if PARABOLIC_VARIANT[0] == 'matrix':
        # fit a*t^2 + b*t + c at t = 1, 2, 3 (Rato et al. 2008, section 3.2.1) and locate its vertex
        abc = _W_INV.dot(np.array([ym, y0, yp]))
        with np.errstate(divide='ignore', invalid='ignore'):
            tp = np.clip(-abc[1] / (2 * abc[0]), 1.5, 2.5)
        return tp - 2, tp * abc[1] / 2 + abc[2]
    den = ym - 2 * y0 + yp
    # the vertex of a parabola through a strict discrete extremum lies within half a sample of it (exactly; rounding on
    # near-flat triples can say otherwise, and refined locations must stay ordered)
    with np.errstate(divide='ignore', invalid='ignore'):
        delta = np.clip(0.5 * (ym - yp) / den, -0.5, 0.5)
    val = y0 - 0.25 * (ym - yp) * delta
    return delta, val


def rounding_sensitive(fn):
    """max |fn() under 'closed' - fn() under 'matrix'|: how much a parabolic-refinement result depends on rounding."""
    old = PARABOLIC_VARIANT[0]
    try:
        PARABOLIC_VARIANT[0] = 'closed'
        a = fn()
        PARABOLIC_VARIANT[0] = 'matrix'
        b = fn()
    except (ValueError, FloatingPointError):
        return np.inf            # the interpolator rejected one variant's refined extrema: as sensitive as it gets
    finally:
        PARABOLIC_VARIANT[0] = old
    if a is None or b is None or np.shape(a) != np.shape(b):
        return np.inf
    return float(np.max(np.abs(np.asarray(a, dtype=float) - np.asarray(b, dtype=float)))) if np.size(a) else 0.0


def find_extrema(x, kind='peaks', parabolic=False):
    """(locs, mags) of peaks / troughs / peaks of |x|."""
    x = np.asarray(x, dtype=float)
    if kind == 'peaks':
        y, sgn = x, 1.0
    elif kind == 'troughs':
        y, sgn = -x, -1.0
    else:
        y, sgn = np.abs(x), 1.0
    loc = strict_extrema(y, 'max')
    if loc.size == 0:
        return np.zeros(0), np.zeros(0)
    if parabolic:
        d, v = parabolic_vertex(y[loc - 1], y[loc], y[loc + 1])
        return loc + d, sgn * v
    return loc, sgn * y[loc]


KNIFE = [0]   # counts padding-pass decisions that sat on a rounding knife-edge (refined locations only)
DEFAULT_LOC_PAD = {'mode': 'reflect', 'reflect_type': 'odd'}
DEFAULT_MAG_PAD = {'mode': 'median', 'stat_length': 1}


def padded_extrema(x, kind='peaks', pad_width=2, parabolic_extrema=False, loc_pad_opts=None, mag_pad_opts=None):
    """Extrema plus np.pad-ed copies beyond both ends (documented defaults: odd reflection of the
    locations, edge-median of the magnitudes), repeated until both record ends are covered."""
    x = np.asarray(x, dtype=float).ravel()
    locs, mags = find_extrema(x, kind, parabolic_extrema)
    if locs.size < 2:
        return None, None
    lo = dict(loc_pad_opts) if loc_pad_opts else dict(DEFAULT_LOC_PAD)
    mo = dict(mag_pad_opts) if mag_pad_opts else dict(DEFAULT_MAG_PAD)
    lmode = lo.pop('mode')
    mmode = mo.pop('mode')
    pw = min(pad_width, locs.size)
    if not pw:
        return locs, mags
    L = np.pad(locs, pw, lmode, **lo)
    M = np.pad(mags, pw, mmode, **mo)
    guard = 0
    tol = 1e-9 * x.size
    # both record ends must be covered: first location < 0 and, mirror-symmetrically, last location > N-1
    while L.max() <= x.size - 1 or L.min() >= 0:
        if parabolic_extrema and (abs(L.max() - (x.size - 1)) <= tol or abs(L.min()) <= tol):
            KNIFE[0] += 1      # the decision to pad once more hangs on rounding of a refined location
        L = np.pad(L, pw, lmode, **lo)
        M = np.pad(M, pw, mmode, **mo)
        guard += 1
        if guard > 10000:
            raise RuntimeError('padding does not reach the record ends')
    if parabolic_extrema and (abs(L.max() - (x.size - 1)) <= tol or abs(L.min()) <= tol):
        KNIFE[0] += 1
    return L, M


def interpolate(locs, mags, t, method='splrep'):
    if method == 'splrep':
        return _interp.splev(t, _interp.splrep(locs, mags))
    if method in ('pchip', 'mono_pchip'):
        return _interp.PchipInterpolator(locs, mags)(t)
    raise ValueError(method)


def envelope(x, which='upper', interp_method='splrep', extrema_opts=None):
    """Envelope through the padded extrema, evaluated at the sample indices 0..N-1 (None if < 2 extrema)."""
    x = np.asarray(x, dtype=float).ravel()
    kind = {'upper': 'peaks', 'lower': 'troughs', 'combined': 'abs_peaks'}[which]
    eo = dict(extrema_opts) if extrema_opts else {}
    L, M = padded_extrema(x, kind, eo.get('pad_width', 2), eo.get('parabolic_extrema', False),
                          eo.get('loc_pad_opts'), eo.get('mag_pad_opts'))
    if L is None:
        return None
    return interpolate(L, M, np.arange(x.size), interp_method)


class RefResult:
    __slots__ = ('kind', 'imf', 'flag', 'niters', 'margin_tie', 'margin_stop', 'margin_par', 'exit', 'note')

    def __init__(self):
        self.kind = None        # 'imf' | 'input' | 'error'
        self.imf = None
        self.flag = None
        self.niters = 0
        self.margin_tie = np.inf   # smallest |adjacent difference| / scale seen on any iterate
        self.margin_stop = np.inf  # smallest relative distance of a stop metric from its threshold
        self.margin_par = np.inf   # parabolic refinement only: smallest |second difference| at an extremum / scale
                                   # (the vertex position is ill-conditioned when it is close to 0)
        self.exit = None        # 'no-extrema-input' | 'extrema-vanished' | 'stop-rule' | 'limit'
        self.note = ''


def ref_extract(x, env_step_size=1, max_iters=1000, stop_method='sd', sd_thresh=.1,
                rilling_thresh=(0.05, 0.5, 0.05), envelope_opts=None, extrema_opts=None,
                hard_cap=None, ignore_input_ties=False):
    """The single-IMF sifting iteration as the property states it.

    iterate_{j+1} = iterate_j - step * mean(upper_j, lower_j); the result is the iterate at which the stop
    rule fires with its *full* envelope mean removed (fixed: the max_iters-th iterate; sd / rilling: the
    first iterate meeting the criterion) or else the first iterate with too few extrema. ``niters`` counts
    envelope evaluations. The iteration limit is *not* applied here (the caller compares niters with it);
    hard_cap only bounds the reference's own work.
    """
    x = np.asarray(x, dtype=float).ravel()
    eo = envelope_opts or {}
    method = eo.get('interp_method', 'splrep')
    r = RefResult()
    scale = np.abs(x).max() if x.size else 0.0
    scale = scale if scale > 0 else 1.0
    proto = x.copy()
    cap = hard_cap if hard_cap is not None else max_iters + 3
    knife0 = KNIFE[0]
    n = 0
    while True:
        n += 1
        if proto.size > 1:
            d = np.abs(np.diff(proto))
            if n == 1 and ignore_input_ties:
                d = d[d > 0]     # exact ties in a *given* input survive exact transforms of it
            if d.size:
                r.margin_tie = min(r.margin_tie, float(d.min()) / scale)
            if (extrema_opts or {}).get('parabolic_extrema') and proto.size >= 3:
                for kind_ in ('max', 'min'):
                    loc = strict_extrema(proto, kind_)
                    if loc.size:
                        den = np.abs(proto[loc - 1] - 2 * proto[loc] + proto[loc + 1])
                        r.margin_par = min(r.margin_par, float(den.min()) / scale)
        up = envelope(proto, 'upper', method, extrema_opts)
        lo = envelope(proto, 'lower', method, extrema_opts)
        if KNIFE[0] != knife0:
            r.note = 'padding-pass-count-on-a-rounding-knife-edge'
        if up is None or lo is None:
            r.niters = n
            r.imf = proto
            if n == 1:
                r.kind, r.flag, r.exit = 'input', False, 'no-extrema-input'
            else:
                r.kind, r.flag, r.exit = 'imf', True, 'extrema-vanished'
            return r
        avg = np.mean([up, lo], axis=0)
        x1 = proto - avg
        if stop_method == 'sd':
            metric = np.sum((proto - x1) ** 2) / np.sum(proto ** 2)
            stop = metric < sd_thresh
            r.margin_stop = min(r.margin_stop, abs(metric - sd_thresh) / sd_thresh)
        elif stop_method == 'rilling':
            sd1, sd2, tol = rilling_thresh
            amp = np.abs(up - lo) / 2
            with np.errstate(divide='ignore', invalid='ignore'):
                ev = np.abs((up + lo) / 2) / amp
            if not np.all(np.isfinite(ev)):
                r.note = 'rilling-zero-amplitude'
            frac = np.mean(ev > sd1)
            stop = not (frac > tol or np.any(ev > sd2))
            with np.errstate(invalid='ignore'):
                m = min(np.nanmin(np.abs(ev - sd1)) / sd1, np.nanmin(np.abs(ev - sd2)) / sd2)
            # the fraction test flips when one more / one fewer sample exceeds sd1
            r.margin_stop = min(r.margin_stop, float(m), abs(frac - tol) * x.size)
        elif stop_method == 'fixed':
            stop = (n == max_iters)
        else:
            raise ValueError(stop_method)
        if stop:
            r.kind, r.flag, r.exit, r.niters, r.imf = 'imf', True, 'stop-rule', n, x1
            return r
        if n >= cap:
            r.kind, r.exit, r.niters = 'error', 'limit', n
            return r
        proto = proto - env_step_size * avg


def conditioned_layers(x, imf, opts, envelope_opts, extrema_opts, tie=1e-7, stop=1e-6, max_layers=12):
    """Number of leading columns of ``imf`` (a sift of x) whose extraction was well conditioned:
    every stop decision further than ``stop`` (relative) from its threshold and no adjacent samples of
    any iterate closer than ``tie`` (relative to the layer's scale). Later layers depend on earlier
    ones, so counting stops at the first ill-conditioned layer."""
    x = np.asarray(x, dtype=float).ravel()
    good = 0
    for j in range(min(imf.shape[1], max_layers)):
        res = x - imf[:, :j].sum(axis=1)
        r = ref_extract(res, envelope_opts=envelope_opts, extrema_opts=extrema_opts, hard_cap=1200,
                        ignore_input_ties=(j == 0), **opts)
        if r.kind == 'error' or r.note or r.margin_stop <= stop or r.margin_tie <= tie or r.margin_par <= 1e-4:
            break
        # measured sensitivity to rounding: the same extraction (in this reference, not in the code under test) of the
        # input times (1 + 2^-30) - a factor far too close to 1 to move anything scale-dependent, but one that re-rounds
        # every sample. Long iterations (hundreds of passes at a small step size) can amplify that last-bit noise to 1e-4
        # of the signal although every single decision has a comfortable margin; such a layer says nothing about the
        # transform under test.
        if r.imf is not None and r.niters > 8:
            f = 1.0 + 2.0 ** -30
            r2 = ref_extract(res * f, envelope_opts=envelope_opts, extrema_opts=extrema_opts, hard_cap=1200,
                             ignore_input_ties=(j == 0), **opts)
            sc = np.abs(res).max() or 1.0
            if r2.imf is None or r2.niters != r.niters or np.abs(r2.imf / f - r.imf).max() / sc > 1e-9:
                SENSITIVE[0] += 1
                break
        good += 1
    return good


SENSITIVE = [0]
