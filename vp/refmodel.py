"""Reference models: written from the property statements and the docstrings,
on numpy/scipy only, independent of the emd code they are compared with."""
import math

import numpy as np

TWO_PI = 2 * np.pi

# ----------------------------------------------------------------------------
# cycles (C12, C13, C14, C15, C16)


def wrap_positions(p, phase_step):
    """Indices i (1..N-1) at which the wrapped phase jumps by more than phase_step."""
    return [i for i in range(1, len(p)) if abs(p[i] - p[i - 1]) > phase_step]


def cycle_partition(p, phase_step):
    """Half-open segments [a, b) delimited by wraps / record ends; [] if no wrap."""
    w = wrap_positions(p, phase_step)
    if not w:
        return []
    b = [0] + w + [len(p)]
    return [(b[j], b[j + 1]) for j in range(len(b) - 1)]


def good_verdict(seg, phase_edge, tol=1e-12):
    """Three-valued verdict on one wrap-delimited segment.

    True / False when the documented criteria decide, None when the segment
    sits exactly on a boundary value on which docstring (strict) and code
    (inclusive) disagree and the property does not choose.
    Returns (verdict, reasons) - reasons names the failed criteria.
    """
    reasons = []
    dontcare = False
    d = np.diff(seg)
    if not np.all(d > 0):
        reasons.append('monotone')
    s, e = float(seg[0]), float(seg[-1])
    lo_edge = phase_edge
    hi_edge = TWO_PI - phase_edge
    # start within (0, edge)
    if abs(s - 0.0) <= tol or abs(s - lo_edge) <= tol:
        dontcare = True
    elif not (0.0 < s < lo_edge):
        reasons.append('start')
    if abs(e - TWO_PI) <= tol or abs(e - hi_edge) <= tol:
        dontcare = True
    elif not (hi_edge < e < TWO_PI):
        reasons.append('end')
    if reasons:
        return False, reasons
    if dontcare:
        return None, reasons
    return True, reasons
