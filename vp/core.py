"""Core of the verification machinery: clauses, cases, violations, recorder.

A *property* (C01..C20) is a python module ``vp.props.cNN`` exposing
``CLAUSES`` (a list of :class:`Clause`), ``RULE`` (text: how cases are made and
what makes one non-trivial) and optionally ``ASSUMPTIONS``.

A *clause* couples a case source with an oracle:

* ``strategy``   - a Hypothesis strategy producing a *case* (a JSON-encodable
                   dict; numpy arrays are allowed and are encoded bit-exactly), or
* ``enumerate``  - a function ``tier -> iterable of cases`` for finite spaces
                   (sharded by index modulo the number of shards);
* ``oracle(case, rec)`` runs the real code on the case and raises
  :class:`Violation` (property broken), :class:`Discard` (case lies outside the
  domain on which the clause is sound - counted, never silently dropped), or
  returns a truthy value iff the case was *non-trivial* by the clause's rule.

Any other exception escaping an oracle is a harness error (exit status 2), not
a violation.
"""
import os
import sys
import json
import hashlib
import collections

import numpy as np

VERIF = os.path.dirname(os.path.dirname(os.path.abspath(__file__)))
REPO = os.environ.get('VERIF_REPO', '/repo')


# ----------------------------------------------------------------------------
# exceptions

class Violation(Exception):
    """The property does not hold on this case.

    ``sig`` identifies *what* fails (``<clause>/<site>/<mode>``) and is what
    known findings are matched against; ``msg`` is free text.
    """

    def __init__(self, sig, msg=''):
        super().__init__('%s: %s' % (sig, msg))
        self.sig = sig
        self.msg = msg


class Discard(Exception):
    """Case excluded (guard band / outside the sound domain); counted."""


# ----------------------------------------------------------------------------
# bit-exact JSON encoding of cases

def enc(o):
    if isinstance(o, np.ndarray):
        if o.dtype.kind == 'f':
            return {'__nd__': [float(v).hex() for v in o.ravel()],
                    'shape': list(o.shape), 'dtype': str(o.dtype)}
        return {'__nd__': o.ravel().tolist(), 'shape': list(o.shape), 'dtype': str(o.dtype)}
    if isinstance(o, (np.floating,)):
        return {'__f__': float(o).hex()}
    if isinstance(o, float):
        return {'__f__': o.hex()}
    if isinstance(o, (np.integer,)):
        return int(o)
    if isinstance(o, (np.bool_,)):
        return bool(o)
    if isinstance(o, tuple):
        return {'__t__': [enc(v) for v in o]}
    if isinstance(o, list):
        return [enc(v) for v in o]
    if isinstance(o, dict):
        return {str(k): enc(v) for k, v in o.items()}
    return o


def dec(o):
    if isinstance(o, dict):
        if '__nd__' in o:
            dt = np.dtype(o['dtype'])
            if dt.kind == 'f':
                a = np.array([float.fromhex(v) for v in o['__nd__']], dtype=dt)
            else:
                a = np.array(o['__nd__'], dtype=dt)
            return a.reshape(o['shape'])
        if '__f__' in o:
            return float.fromhex(o['__f__'])
        if '__t__' in o:
            return tuple(dec(v) for v in o['__t__'])
        return {k: dec(v) for k, v in o.items()}
    if isinstance(o, list):
        return [dec(v) for v in o]
    return o


def readable(o, maxlen=24):
    """Human readable rendering of a case for the evidence samples."""
    if isinstance(o, np.ndarray):
        flat = o.ravel()
        d = {'shape': list(o.shape)}
        if flat.size <= maxlen:
            d['values'] = [_num(v) for v in flat]
        else:
            d['head'] = [_num(v) for v in flat[:maxlen]]
        return d
    if isinstance(o, (np.floating, float)):
        return _num(o)
    if isinstance(o, (np.integer,)):
        return int(o)
    if isinstance(o, (np.bool_,)):
        return bool(o)
    if isinstance(o, (list, tuple)):
        if len(o) > 40:
            return [readable(v, maxlen) for v in o[:40]] + ['... %d more' % (len(o) - 40)]
        return [readable(v, maxlen) for v in o]
    if isinstance(o, dict):
        return {str(k): readable(v, maxlen) for k, v in o.items()}
    if o is None or isinstance(o, (str, int, bool)):
        return o
    return repr(o)


def _num(v):
    v = float(v)
    if v != v:
        return 'nan'
    if v in (float('inf'), float('-inf')):
        return str(v)
    return float('%.6g' % v)


def case_hash(case):
    s = json.dumps(enc(case), sort_keys=True, default=repr)
    return int.from_bytes(hashlib.sha1(s.encode()).digest()[:8], 'big')


# ----------------------------------------------------------------------------
# clause + recorder

# Clauses that are also driven by the coverage-guided engine (cheap cases only: the instrumented library runs ~2x slower
# and libFuzzer needs tens of thousands of executions to pay off):
#   name -> (decoded cases per shard quick, thorough, shards quick, shards thorough)
FUZZ_TABLE = {
    'C01.short': (400, 8000, 2, 8),
    'C04.differential': (400, 8000, 2, 8),
    'C04.vanish': (400, 8000, 2, 8),
    'C05.random': (800, 20000, 2, 8),
    'C09.roundtrip': (800, 20000, 1, 4),
    'C09.sinusoid': (400, 8000, 1, 4),
    'C10.random': (800, 20000, 2, 8),
    'C11.random': (800, 20000, 2, 8),
    'C12.synth': (800, 20000, 2, 8),
    'C12.short': (1500, 40000, 2, 8),
    'C13.mask': (800, 20000, 2, 8),
    'C13.is_good': (1000, 30000, 1, 4),
    'C13.container': (800, 20000, 2, 8),
    'C14.stat': (800, 20000, 2, 6),
    'C14.bin': (800, 20000, 1, 4),
    'C14.align': (400, 8000, 1, 4),
    'C14.stat_object': (600, 10000, 1, 4),
    'C15.machine': (300, 6000, 2, 8),
    'C16.large': (100, 2000, 2, 8),
    'C17.valid': (800, 20000, 2, 8),
    'C17.sequence': (300, 6000, 1, 4),
    'C18.paths': (600, 15000, 2, 8),
    'C19.vector': (300, 6000, 2, 8),
    'C19.lengths': (300, 6000, 2, 8),
    'C19.reuse': (200, 4000, 2, 8),
}


class Clause:
    def __init__(self, name, oracle, strategy=None, enumerate=None,
                 quick=1000, thorough=20000, shards=(4, 16), nt_rule='',
                 exhaustive=False, max_shards=None, fuzz=None):
        self.name = name
        self.oracle = oracle
        self.strategy = strategy
        self.enumerate = enumerate
        self.quick = quick
        self.thorough = thorough
        self.shards = shards
        self.nt_rule = nt_rule
        self.exhaustive = exhaustive
        # coverage-guided second engine: (valid cases per shard quick, thorough, shards quick, shards thorough) - the same
        # strategy and oracle, with libFuzzer (atheris) choosing the bytes Hypothesis decodes and emd instrumented for coverage
        self.fuzz = fuzz if fuzz is not None else FUZZ_TABLE.get(name)

    def budget(self, tier):
        return self.quick if tier == 'quick' else self.thorough

    def nshards(self, tier):
        return self.shards[0] if tier == 'quick' else self.shards[1]


class Recorder:
    """Per-shard bookkeeping; merged by the runner into the evidence file."""

    def __init__(self, max_samples=3):
        self.evaluations = 0
        self.hashes = set()          # hashes of distinct non-trivial cases
        self.classes = collections.Counter()
        self.excluded = collections.Counter()
        self.known = {}              # sig -> [count, example case (readable), msg]
        self.violations = []         # dicts
        self.samples = []
        self.max_samples = max_samples
        self.last_fail = None
        self.soft = []               # (sig, msg) violations noted without aborting the case

    def soft_violation(self, sig, msg=''):
        """Note a violation and carry on with the case. If the signature is a listed (open) known finding it
        is counted as such; otherwise the runner turns it into a regular Violation once the oracle returns.
        Lets a search continue *behind* a known finding instead of ending every case that meets it."""
        self.soft.append((sig, msg))

    def cls(self, label, n=1):
        self.classes[str(label)] += n

    def note_case(self, case, nontrivial):
        self.evaluations += 1
        if nontrivial:
            h = case_hash(case)
            if h not in self.hashes:
                self.hashes.add(h)
                if len(self.samples) < self.max_samples:
                    self.samples.append(readable(case))


# ----------------------------------------------------------------------------
# known findings (read-only at run time)

KNOWN_FILE = os.path.join(VERIF, 'known_findings.txt')


def load_known():
    """Parse known_findings.txt.

    Lines:
      open: property=<id> signature=<sig-glob> <what fails>
      fixed: property=<id> <commit> <what failed>
    Only ``open`` entries suppress anything.
    """
    out = []
    if not os.path.exists(KNOWN_FILE):
        return out
    for line in open(KNOWN_FILE):
        line = line.strip()
        if not line or line.startswith('#'):
            continue
        if line.startswith('open:'):
            parts = line[5:].split()
            d = {'status': 'open', 'text': line}
            rest = []
            for p in parts:
                if p.startswith('property=') and 'property' not in d:
                    d['property'] = p[9:]
                elif p.startswith('signature=') and 'signature' not in d:
                    d['signature'] = p[10:]
                else:
                    rest.append(p)
            d['what'] = ' '.join(rest)
            out.append(d)
    return out


def match_known(known, prop, sig):
    import fnmatch
    for k in known:
        if k.get('property') == prop and fnmatch.fnmatchcase(sig, k.get('signature', '')):
            return k
    return None


# ----------------------------------------------------------------------------
# importing the code under test

def import_emd():
    """Import emd from REPO's working tree and make sure that is what we got."""
    if REPO not in sys.path:
        sys.path.insert(0, REPO)
    import warnings
    warnings.filterwarnings('ignore')
    import emd
    p = os.path.realpath(emd.__file__)
    if not p.startswith(os.path.realpath(REPO) + os.sep):
        raise RuntimeError('emd imported from %s, expected under %s' % (p, REPO))
    return emd
