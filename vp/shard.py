"""Run one shard of one clause (or one replay file) in a fresh interpreter.

usage: python -m vp.shard run    <ID> <clause> <shard> <nshards> <tier> <seed> <out.json>
       python -m vp.shard replay <ID> <replay.json> <out.json>

Exit status 0 whatever the oracle found (the result file says what happened);
a non-zero status or a missing result file means a harness error.
"""
import os
import sys
import json
import time
import importlib
import copy
import signal
import traceback

import numpy as np

from . import core
from .core import Violation, Discard


def load_prop(pid):
    return importlib.import_module('vp.props.%s' % pid.lower())


def find_clause(mod, name):
    name = name.split('~')[0]         # a case found by the coverage-guided engine ('<clause>~fuzz') replays through the clause itself
    for c in mod.CLAUSES:
        if c.name == name:
            return c
    raise KeyError('no clause %s' % name)


class Runner:
    def __init__(self, pid, clause, known):
        self.pid = pid
        self.clause = clause
        self.known = known
        self.rec = core.Recorder()
        self.reported = set()      # signatures already saved in this run
        self.harness_error = None
        self.slowest = (0.0, None)
        self.timeouts = 0

    def run_case(self, case, reraise):
        """Returns normally if the case passed / was excluded / hit a known finding."""
        rec = self.rec
        # what gets saved / reported is a copy taken *before* the code under test can touch the case's arrays
        pristine = copy.deepcopy(case)
        t_case = time.time()
        rec.soft = []
        try:
            _case_started[0] = t_case
            signal.setitimer(signal.ITIMER_REAL, CASE_TIMEOUT)
            try:
                nt = self.clause.oracle(case, rec)
                for sig, msg in rec.soft:
                    k = core.match_known(self.known, self.pid, sig)
                    if k is None:
                        raise Violation(sig, msg)
                    ent = rec.known.setdefault(sig, [0, core.readable(pristine), msg, k['what']])
                    ent[0] += 1
            finally:
                signal.setitimer(signal.ITIMER_REAL, 0)
                dt = time.time() - t_case
                if dt > self.slowest[0]:
                    self.slowest = (dt, core.readable(pristine, 6))
        except CaseTimeout as e:
            # a slow case is inconclusive, never a violation: it is counted as excluded - but only a few per shard
            # (a change that makes the code hang must not turn a check green)
            rec.evaluations += 1
            rec.excluded['case exceeded the %.0f s per-case time limit (inconclusive)' % CASE_TIMEOUT] += 1
            self.timeouts += 1
            if self.timeouts > 3:
                e.args = (str(e) + ' (more than 3 such cases in this shard) on case ' + json.dumps(core.enc(pristine))[:6000],)
                raise
            return
        except Discard as d:
            rec.evaluations += 1
            rec.excluded[str(d)] += 1
            return
        except Violation as v:
            rec.evaluations += 1
            k = core.match_known(self.known, self.pid, v.sig)
            if k is not None:
                ent = rec.known.setdefault(v.sig, [0, core.readable(pristine), v.msg, k['what']])
                ent[0] += 1
                return
            if v.sig in self.reported:
                return
            rec.last_fail = (v.sig, v.msg, pristine)
            if reraise:
                raise
            self.save_violation()
            return
        rec.note_case(pristine, bool(nt))

    def save_violation(self):
        sig, msg, case = self.rec.last_fail
        self.reported.add(sig)
        self.rec.violations.append({'sig': sig, 'msg': msg, 'case': core.enc(case),
                                    'readable': core.readable(case)})
        self.rec.last_fail = None

    # ------------------------------------------------------------------
    def run_enumerated(self, tier, shard, nshards):
        budget = self.clause.budget(tier)
        n = 0
        for idx, case in enumerate(self.clause.enumerate(tier)):
            if idx % nshards != shard:
                continue
            self.run_case(case, reraise=False)
            n += 1
            if budget is not None and n >= budget:
                self.rec.cls('_budget_exhausted')
                break

    def run_hypothesis(self, tier, seed, shard, nshards):
        import hypothesis
        from hypothesis import given, settings, HealthCheck, Phase
        try:
            import hypothesis.internal.conjecture.engine as eng
            eng.MAX_SHRINKING_SECONDS = 45 if tier == 'quick' else 180
        except Exception:
            pass
        budget = max(1, self.clause.budget(tier) // nshards)
        from hypothesis.strategies import SearchStrategy
        strat = self.clause.strategy
        if not isinstance(strat, SearchStrategy):
            strat = strat(tier)      # tier-dependent generated sizes
        # Up to 4 rounds: after an unlisted violation has been shrunk and saved,
        # its signature is excluded and the search restarts (so that one shallow
        # defect does not hide others behind it).
        done = 0
        for rnd in range(4):
            left = budget - done if rnd == 0 else max(budget // 2, 1)
            start = self.rec.evaluations
            s = (seed * 1000003 + shard * 7919 + rnd * 104729 + _stable(self.clause.name)) % (2**63)

            @hypothesis.seed(s)
            @settings(max_examples=left, database=None, deadline=None,
                      suppress_health_check=list(HealthCheck),
                      report_multiple_bugs=False, print_blob=False,
                      phases=[Phase.generate, Phase.shrink])
            @given(strat)
            def test(case):
                self.run_case(case, reraise=True)

            try:
                test()
                break
            except Violation:
                if self.rec.last_fail is None:
                    raise
                self.save_violation()
                done += self.rec.evaluations - start
            except Exception as e:
                # Hypothesis reports 'flaky' when a case that violated the property passes on re-execution. The
                # violation was nevertheless observed on real outputs; the usual cause is state that the code under
                # test keeps between calls (a cache, a mutated default), which is itself what several properties
                # forbid. It is reported, with a note that the replay may need the preceding cases to reproduce.
                if type(e).__name__ in ('Flaky', 'FlakyFailure', 'FlakyReplay') and self.rec.last_fail is not None:
                    sig, msg, case = self.rec.last_fail
                    self.rec.last_fail = (sig, msg + ' [observed once, not reproduced when the case was re-run alone: '
                                          'depends on state left behind by earlier calls]', case)
                    self.save_violation()
                    done += self.rec.evaluations - start
                else:
                    raise


    # ------------------------------------------------------------------
    def run_fuzz(self, tier, seed, shard, nshards, finish):
        """Coverage-guided engine: libFuzzer (atheris) mutates a byte string, Hypothesis decodes it through the clause's own
        strategy (fuzz_one_input), the clause's oracle judges the case. emd was imported under atheris instrumentation, so
        new branches / comparison operands inside emd steer the mutation. Stops after `budget` decoded cases (or 30x as many
        executions); a violation is saved as the decoded case (JSON replay, no atheris needed to re-run it)."""
        import atheris
        from hypothesis import given, settings, HealthCheck
        from hypothesis.strategies import SearchStrategy
        _fix_bytestring_provider()
        strat = self.clause.strategy
        if not isinstance(strat, SearchStrategy):
            strat = strat(tier)
        budget = self.clause.fuzz[0] if tier == 'quick' else self.clause.fuzz[1]
        state = {'execs': 0}

        @settings(database=None, deadline=None, suppress_health_check=list(HealthCheck))
        @given(strat)
        def test(case):
            self.run_case(case, reraise=False)

        def one(data):
            if state['execs'] == 0:
                signal.signal(signal.SIGALRM, _alarm)      # libFuzzer installed its own handler when it started
            state['execs'] += 1
            test.hypothesis.fuzz_one_input(data)
            if self.rec.evaluations >= budget or state['execs'] >= 30 * budget:
                self.rec.classes['_engine=atheris executions'] += state['execs']
                finish()

        corpus = os.path.join(os.path.dirname(os.path.abspath(sys.argv[-1])), 'corpus-%s-%d' % (self.clause.name, shard))
        os.makedirs(corpus, exist_ok=True)
        s = (seed * 1000003 + shard * 7919 + _stable(self.clause.name)) % (2**31 - 2) + 1
        # starting corpus: pseudo-random byte strings long enough for the strategy to decode (from an empty corpus libFuzzer
        # spends its budget on inputs that run out of bytes); a function of the seed only
        import random
        rnd = random.Random(s)
        for i in range(24):
            with open(os.path.join(corpus, 'seed%02d' % i), 'wb') as f:
                f.write(rnd.randbytes([64, 512, 2048, 8192][i % 4]))
        atheris.Setup([sys.argv[0], '-seed=%d' % s, '-runs=%d' % (40 * budget), '-max_len=8192', '-len_control=0',
                       '-timeout=1200', '-rss_limit_mb=0', '-malloc_limit_mb=0', '-print_final_stats=0', '-verbosity=0', corpus], one)
        atheris.Fuzz()
        finish()        # not reached when libFuzzer exits by itself


def _fix_bytestring_provider():
    """Hypothesis 6.168's byte-string back end (used by fuzz_one_input) draws a bounded integer as raw bits and rejects
    until it lies in [min, max] *without adding min*: integers(2, 3) can never be decoded (only 0 or 1 are produced), which
    rules out every fixed_dictionaries strategy with >= 4 keys (its key shuffle draws integers(2, 3)). Corrected here, in the
    harness only: min + bits, rejected while above max."""
    from hypothesis.internal.conjecture import providers

    def draw_integer(self, min_value=None, max_value=None, *, weights=None, shrink_towards=0):
        if min_value is None and max_value is None:
            min_value, max_value = -(2**127), 2**127 - 1
        elif min_value is None:
            min_value = max_value - 2**64
        elif max_value is None:
            max_value = min_value + 2**64
        if min_value == max_value:
            return min_value
        bits = (max_value - min_value).bit_length()
        value = min_value + self._draw_bits(bits)
        while value > max_value:
            value = min_value + self._draw_bits(bits)
        return value
    providers.BytestringProvider.draw_integer = draw_integer


class CaseTimeout(BaseException):
    """One case ran longer than CASE_TIMEOUT seconds: inconclusive (harness error), never a violation -
    unless a clause catches it itself because termination is what its property is about (C04)."""


CASE_TIMEOUT = float(os.environ.get('VERIF_CASE_TIMEOUT', '240'))     # raised to 600 s in the thorough tier (main)


def _alarm(signum, frame):
    if time.time() - _case_started[0] < CASE_TIMEOUT - 1:
        return                  # somebody else's timer (libFuzzer arms one in the fuzz engine)
    raise CaseTimeout('a single case exceeded %.0f s' % CASE_TIMEOUT)


_case_started = [0.0]


def _stable(s):
    import hashlib
    return int.from_bytes(hashlib.sha1(s.encode()).digest()[:4], 'big')


def main(argv):
    mode = argv[0]
    t0 = time.time()
    out = {'error': None}
    signal.signal(signal.SIGALRM, _alarm)
    holder = {}

    def write_out():
        rec = holder['r'].rec
        outpath = argv[-1]
        hpath = outpath + '.npy'
        np.save(hpath, np.array(sorted(rec.hashes), dtype=np.uint64))
        out.update({
            'clause': holder['name'],
            'evaluations': rec.evaluations,
            'nontrivial': len(rec.hashes),
            'hashes': hpath,
            'classes': dict(rec.classes),
            'excluded': dict(rec.excluded),
            'known': rec.known,
            'violations': rec.violations,
            'samples': rec.samples,
            'slowest': list(holder['r'].slowest),
        })
        out['wall_s'] = time.time() - t0
        with open(outpath, 'w') as f:
            json.dump(out, f)

    try:
        if mode == 'fuzz':
            import atheris
            with atheris.instrument_imports(include=['emd'], enable_loader_override=False):
                core.import_emd()
        else:
            core.import_emd()
        known = core.load_known()
        if mode == 'fuzz':
            pid, cname, shard, nshards, tier, seed, outpath = argv[1:8]
            shard, nshards, seed = int(shard), int(nshards), int(seed)
            mod = load_prop(pid)
            clause = find_clause(mod, cname)
            r = Runner(pid, clause, known)
            holder.update(r=r, name=cname + '~fuzz')

            def finish():
                write_out()
                sys.stdout.flush()
                os._exit(0)
            r.run_fuzz(tier, seed, shard, nshards, finish)
        elif mode == 'run':
            pid, cname, shard, nshards, tier, seed, outpath = argv[1:8]
            shard, nshards, seed = int(shard), int(nshards), int(seed)
            if tier == 'thorough' and 'VERIF_CASE_TIMEOUT' not in os.environ:
                global CASE_TIMEOUT
                CASE_TIMEOUT = 600.0
            mod = load_prop(pid)
            clause = find_clause(mod, cname)
            r = Runner(pid, clause, known)
            if clause.enumerate is not None:
                r.run_enumerated(tier, shard, nshards)
            else:
                r.run_hypothesis(tier, seed, shard, nshards)
        else:
            pid, rpath, outpath = argv[1:4]
            mod = load_prop(pid)
            rp = json.load(open(rpath))
            clause = find_clause(mod, rp['clause'])
            r = Runner(pid, clause, known)
            r.run_case(core.dec(rp['case']), reraise=False)
        rec = r.rec
        hpath = outpath + '.npy'
        np.save(hpath, np.array(sorted(rec.hashes), dtype=np.uint64))
        out.update({
            'clause': clause.name,
            'evaluations': rec.evaluations,
            'nontrivial': len(rec.hashes),
            'hashes': hpath,
            'classes': dict(rec.classes),
            'excluded': dict(rec.excluded),
            'known': rec.known,
            'violations': rec.violations,
            'samples': rec.samples,
            'slowest': list(r.slowest),
        })
    except BaseException:
        out['error'] = traceback.format_exc()
        outpath = argv[-1]
    out['wall_s'] = time.time() - t0
    with open(outpath, 'w') as f:
        json.dump(out, f)
    return 0


if __name__ == '__main__':
    sys.exit(main(sys.argv[1:]))
