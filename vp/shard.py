"""Run one shard of one clause (or one replay file) in a fresh interpreter.

usage: python -m vp.shard run    <ID> <clause> <shard> <nshards> <tier> <seed> <out.json>
       python -m vp.shard replay <ID> <replay.json> <out.json>

Exit status 0 whatever the oracle found (the result file says what happened);
a non-zero status or a missing result file means a harness error.
"""
import os
import sys
import json
import time
import importlib
import copy
import signal
import traceback

import numpy as np

from . import core
from .core import Violation, Discard


def load_prop(pid):
    return importlib.import_module('vp.props.%s' % pid.lower())


def find_clause(mod, name):
    for c in mod.CLAUSES:
        if c.name == name:
            return c
    raise KeyError('no clause %s' % name)


class Runner:
    def __init__(self, pid, clause, known):
        self.pid = pid
        self.clause = clause
        self.known = known
        self.rec = core.Recorder()
        self.reported = set()      # signatures already saved in this run
        self.harness_error = None
        self.slowest = (0.0, None)
        self.timeouts = 0

    def run_case(self, case, reraise):
        """Returns normally if the case passed / was excluded / hit a known finding."""
        rec = self.rec
        # what gets saved / reported is a copy taken *before* the code under test can touch the case's arrays
        pristine = copy.deepcopy(case)
        t_case = time.time()
        rec.soft = []
        try:
            signal.setitimer(signal.ITIMER_REAL, CASE_TIMEOUT)
            try:
                nt = self.clause.oracle(case, rec)
                for sig, msg in rec.soft:
                    k = core.match_known(self.known, self.pid, sig)
                    if k is None:
                        raise Violation(sig, msg)
                    ent = rec.known.setdefault(sig, [0, core.readable(pristine), msg, k['what']])
                    ent[0] += 1
            finally:
                signal.setitimer(signal.ITIMER_REAL, 0)
                dt = time.time() - t_case
                if dt > self.slowest[0]:
                    self.slowest = (dt, core.readable(pristine, 6))
        except CaseTimeout as e:
            # a slow case is inconclusive, never a violation: it is counted as excluded - but only a few per shard
            # (a change that makes the code hang must not turn a check green)
            rec.evaluations += 1
            rec.excluded['case exceeded the %.0f s per-case time limit (inconclusive)' % CASE_TIMEOUT] += 1
            self.timeouts += 1
            if self.timeouts > 3:
                e.args = (str(e) + ' (more than 3 such cases in this shard) on case ' + json.dumps(core.enc(pristine))[:6000],)
                raise
            return
        except Discard as d:
            rec.evaluations += 1
            rec.excluded[str(d)] += 1
            return
        except Violation as v:
            rec.evaluations += 1
            k = core.match_known(self.known, self.pid, v.sig)
            if k is not None:
                ent = rec.known.setdefault(v.sig, [0, core.readable(pristine), v.msg, k['what']])
                ent[0] += 1
                return
            if v.sig in self.reported:
                return
            rec.last_fail = (v.sig, v.msg, pristine)
            if reraise:
                raise
            self.save_violation()
            return
        rec.note_case(pristine, bool(nt))

    def save_violation(self):
        sig, msg, case = self.rec.last_fail
        self.reported.add(sig)
        self.rec.violations.append({'sig': sig, 'msg': msg, 'case': core.enc(case),
                                    'readable': core.readable(case)})
        self.rec.last_fail = None

    # ------------------------------------------------------------------
    def run_enumerated(self, tier, shard, nshards):
        budget = self.clause.budget(tier)
        n = 0
        for idx, case in enumerate(self.clause.enumerate(tier)):
            if idx % nshards != shard:
                continue
            self.run_case(case, reraise=False)
            n += 1
            if budget is not None and n >= budget:
                self.rec.cls('_budget_exhausted')
                break

    def run_hypothesis(self, tier, seed, shard, nshards):
        import hypothesis
        from hypothesis import given, settings, HealthCheck, Phase
        try:
            import hypothesis.internal.conjecture.engine as eng
            eng.MAX_SHRINKING_SECONDS = 45 if tier == 'quick' else 180
        except Exception:
            pass
        budget = max(1, self.clause.budget(tier) // nshards)
        from hypothesis.strategies import SearchStrategy
        strat = self.clause.strategy
        if not isinstance(strat, SearchStrategy):
            strat = strat(tier)      # tier-dependent generated sizes
        # Up to 4 rounds: after an unlisted violation has been shrunk and saved,
        # its signature is excluded and the search restarts (so that one shallow
        # defect does not hide others behind it).
        done = 0
        for rnd in range(4):
            left = budget - done if rnd == 0 else max(budget // 2, 1)
            start = self.rec.evaluations
            s = (seed * 1000003 + shard * 7919 + rnd * 104729 + _stable(self.clause.name)) % (2**63)

            @hypothesis.seed(s)
            @settings(max_examples=left, database=None, deadline=None,
                      suppress_health_check=list(HealthCheck),
                      report_multiple_bugs=False, print_blob=False,
                      phases=[Phase.generate, Phase.shrink])
            @given(strat)
            def test(case):
                self.run_case(case, reraise=True)

            try:
                test()
                break
            except Violation:
                if self.rec.last_fail is None:
                    raise
                self.save_violation()
                done += self.rec.evaluations - start
            except Exception as e:
                # Hypothesis reports 'flaky' when a case that violated the property passes on re-execution. The
                # violation was nevertheless observed on real outputs; the usual cause is state that the code under
                # test keeps between calls (a cache, a mutated default), which is itself what several properties
                # forbid. It is reported, with a note that the replay may need the preceding cases to reproduce.
                if type(e).__name__ in ('Flaky', 'FlakyFailure', 'FlakyReplay') and self.rec.last_fail is not None:
                    sig, msg, case = self.rec.last_fail
                    self.rec.last_fail = (sig, msg + ' [observed once, not reproduced when the case was re-run alone: '
                                          'depends on state left behind by earlier calls]', case)
                    self.save_violation()
                    done += self.rec.evaluations - start
                else:
                    raise


class CaseTimeout(BaseException):
    """One case ran longer than CASE_TIMEOUT seconds: inconclusive (harness error), never a violation -
    unless a clause catches it itself because termination is what its property is about (C04)."""


CASE_TIMEOUT = float(os.environ.get('VERIF_CASE_TIMEOUT', '240'))     # raised to 600 s in the thorough tier (main)


def _alarm(signum, frame):
    raise CaseTimeout('a single case exceeded %.0f s' % CASE_TIMEOUT)


def _stable(s):
    import hashlib
    return int.from_bytes(hashlib.sha1(s.encode()).digest()[:4], 'big')


def main(argv):
    mode = argv[0]
    t0 = time.time()
    out = {'error': None}
    signal.signal(signal.SIGALRM, _alarm)
    try:
        core.import_emd()
        known = core.load_known()
        if mode == 'run':
            pid, cname, shard, nshards, tier, seed, outpath = argv[1:8]
            shard, nshards, seed = int(shard), int(nshards), int(seed)
            if tier == 'thorough' and 'VERIF_CASE_TIMEOUT' not in os.environ:
                global CASE_TIMEOUT
                CASE_TIMEOUT = 600.0
            mod = load_prop(pid)
            clause = find_clause(mod, cname)
            r = Runner(pid, clause, known)
            if clause.enumerate is not None:
                r.run_enumerated(tier, shard, nshards)
            else:
                r.run_hypothesis(tier, seed, shard, nshards)
        else:
            pid, rpath, outpath = argv[1:4]
            mod = load_prop(pid)
            rp = json.load(open(rpath))
            clause = find_clause(mod, rp['clause'])
            r = Runner(pid, clause, known)
            r.run_case(core.dec(rp['case']), reraise=False)
        rec = r.rec
        hpath = outpath + '.npy'
        np.save(hpath, np.array(sorted(rec.hashes), dtype=np.uint64))
        out.update({
            'clause': clause.name,
            'evaluations': rec.evaluations,
            'nontrivial': len(rec.hashes),
            'hashes': hpath,
            'classes': dict(rec.classes),
            'excluded': dict(rec.excluded),
            'known': rec.known,
            'violations': rec.violations,
            'samples': rec.samples,
            'slowest': list(r.slowest),
        })
    except BaseException:
        out['error'] = traceback.format_exc()
        outpath = argv[-1]
    out['wall_s'] = time.time() - t0
    with open(outpath, 'w') as f:
        json.dump(out, f)
    return 0


if __name__ == '__main__':
    sys.exit(main(sys.argv[1:]))
