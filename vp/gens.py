"""Shared generators. Every random choice is drawn by Hypothesis (numpy RNGs are
seeded with a drawn integer) so that cases shrink and replay exactly."""
import itertools

import numpy as np
from hypothesis import strategies as st
from hypothesis.extra import numpy as hnp

TWO_PI = 2 * np.pi
PHASE_ALPHABET = (0.1, 1.5, 3.1, 4.7, 6.2)


# ----------------------------------------------------------------------------
# phases

def alphabet_phases(maxlen, minlen=1, alphabet=PHASE_ALPHABET):
    """Every sequence over the alphabet with minlen <= length <= maxlen (shortest first)."""
    for n in range(minlen, maxlen + 1):
        for tup in itertools.product(alphabet, repeat=n):
            yield np.array(tup, dtype=float)


@st.composite
def synth_phase(draw, max_n=400, min_n=2, max_cols=3):
    """Long synthetic wrapped phase: variable, noisy, occasionally reversing frequency."""
    n = draw(st.integers(min_n, max_n))
    m = draw(st.integers(1, max_cols))
    k = draw(st.integers(0, 2**32 - 1))
    mean_len = draw(st.sampled_from([2.5, 4, 7, 13, 25, 60]))
    jitter = draw(st.sampled_from([0.0, 0.05, 0.3, 1.0]))
    rev = draw(st.sampled_from([0.0, 0.02, 0.1]))
    start = draw(st.floats(0, 6.28))
    rng = np.random.default_rng(k)
    out = np.zeros((n, m))
    for c in range(m):
        base = TWO_PI / mean_len
        inc = base * np.exp(0.4 * rng.standard_normal(n))
        inc = inc + jitter * base * rng.standard_normal(n)
        flips = rng.random(n) < rev
        inc[flips] *= -1
        ph = np.mod(start + np.cumsum(inc), TWO_PI)
        ph[ph >= TWO_PI] = 0.0
        out[:, c] = ph
    return out


def short_phase(max_n=30, min_n=1, special=()):
    """Element-wise drawn phase vector in [0, 2pi) (fully shrinkable)."""
    base = st.floats(0, 6.283185307179586, allow_nan=False, exclude_max=True)
    elems = st.one_of(base, st.sampled_from(list(PHASE_ALPHABET) + list(special))) if True else base
    return st.lists(elems, min_size=min_n, max_size=max_n).map(lambda v: np.array(v, dtype=float))


@st.composite
def monotone_cycles_phase(draw, min_cycles=2, max_cycles=8, min_len=8, max_len=400,
                          total_max=1500):
    """Monotone wrapped phase made of whole cycles of individually drawn length.

    Within every cycle the phase rises strictly from just above 0 to just below
    2pi (optionally with non-uniform speed), so there is a wrap between any two
    consecutive cycles.
    """
    nc = draw(st.integers(min_cycles, max_cycles))
    lens = []
    tot = 0
    for _ in range(nc):
        ln = draw(st.one_of(st.integers(min_len, min(max_len, 40)), st.integers(min_len, max_len)))
        if tot + ln > total_max and len(lens) >= min_cycles:
            break
        lens.append(ln)
        tot += ln
    k = draw(st.integers(0, 2**32 - 1))
    warp = draw(st.sampled_from([0.0, 0.3, 0.8]))
    rng = np.random.default_rng(k)
    parts = []
    for ln in lens:
        w = 1.0 + warp * (rng.random(ln) - 0.5)
        u = np.cumsum(w)
        delta = 0.01 + 0.03 * rng.random()
        if ln > 1:
            u = (u - u[0]) / (u[-1] - u[0])       # 0 .. 1, strictly increasing
        else:
            u = np.array([0.5])
        ph = TWO_PI * (delta + (1 - 2 * delta) * u)   # from just above 0 to just below 2pi
        parts.append(ph)
    return np.concatenate(parts), lens


# ----------------------------------------------------------------------------
# signals for the sift properties

FAMILIES = ('noise', 'walk', 'tones', 'amfm', 'levels', 'const', 'ramp', 'edgeplateau')


def make_signal(family, n, k, p1=0.0, p2=0.0):
    """Deterministic signal of a given family from integer seed k and two shape parameters."""
    rng = np.random.default_rng(k)
    t = np.arange(n, dtype=float)
    if family == 'noise':
        x = rng.standard_normal(n)
    elif family == 'walk':
        x = np.cumsum(rng.standard_normal(n))
        x = x / (np.abs(x).max() + 1e-3)
    elif family == 'tones':
        nt = 2 + int(p1 * 2.999)
        x = np.zeros(n)
        for i in range(nt):
            f = (0.5 / (2.5 ** (i + 1))) * (0.7 + 0.6 * rng.random())
            x += (0.4 + rng.random()) * np.sin(TWO_PI * f * t + TWO_PI * rng.random())
        x += (p2 - 0.5) * 2 * t / max(n - 1, 1) + (p1 - 0.5) * (t / max(n - 1, 1)) ** 2
        x += 0.02 * rng.standard_normal(n)
    elif family == 'amfm':
        f0 = 0.02 + 0.1 * p1
        am = 1 + 0.5 * np.sin(TWO_PI * f0 / 7 * t + rng.random())
        ph = TWO_PI * f0 * t + (1 + 3 * p2) * np.sin(TWO_PI * f0 / 5 * t)
        x = am * np.cos(ph) + 0.3 * np.sin(TWO_PI * f0 / 9 * t)
    elif family == 'levels':
        nl = 3 + int(p1 * 4.999)
        x = rng.integers(0, nl, n).astype(float)
        if p2 > 0.5:
            x = np.repeat(x[::2], 2)[:n] if n > 1 else x
    elif family == 'const':
        x = np.full(n, float(np.round(4 * (p1 - 0.5), 2)))
    elif family == 'ramp':
        x = (p1 - 0.5) * 4 * t / max(n - 1, 1) + p2
        if p2 > 0.5:
            x = x ** 3
    elif family == 'edgeplateau':
        x = rng.standard_normal(n)
        a = 1 + int(p1 * 3.999)
        b = 1 + int(p2 * 3.999)
        x[:a] = x[min(a, n - 1)]
        x[n - b:] = x[max(n - b - 1, 0)]
    elif family == 'burst':
        # a few oscillations in the middle of a monotone record: the extrema sit far from both ends, so the
        # extrema padding needs several passes to reach them
        c = n * (0.35 + 0.3 * p1)
        w = max(n * (0.04 + 0.1 * p2), 2.0)
        x = np.exp(-0.5 * ((t - c) / w) ** 2) * np.cos(TWO_PI * (t - c) / max(w * 0.8, 2.5) + rng.random()) + 0.5 * t / max(n - 1, 1)
    else:
        raise ValueError(family)
    if x.shape[0] != n:
        x = np.resize(x, n)
    return np.ascontiguousarray(x, dtype=float)


@st.composite
def family_signal(draw, min_n=3, max_n=400, families=FAMILIES, small_bias=True):
    fam = draw(st.sampled_from(list(families)))
    if small_bias:
        n = draw(st.one_of(st.integers(min_n, min(max_n, 24)), st.integers(min_n, min(max_n, 80)),
                           st.integers(min_n, max_n)))
    else:
        n = draw(st.integers(min_n, max_n))
    k = draw(st.integers(0, 2**32 - 1))
    p1 = draw(st.floats(0, 1))
    p2 = draw(st.floats(0, 1))
    return {'family': fam, 'n': n, 'k': k, 'p1': p1, 'p2': p2}


def sig_of(desc):
    """The signal a case describes. An optional 'dtype' stores it as float32 / float16 / int64 / int16 (integer dtypes hold the
    signal scaled by 100 and rounded, like raw ADC counts); reference models work on sig.astype(float)."""
    if 'x' in desc:
        x = np.asarray(desc['x'], dtype=float)
    else:
        x = make_signal(desc['family'], desc['n'], desc['k'], desc['p1'], desc['p2'])
    dt = desc.get('dtype', 'f8')
    if dt == 'f4':
        x = x.astype(np.float32)
    elif dt == 'f2':
        x = x.astype(np.float16)
    elif dt in ('i8', 'i2'):
        x = np.clip(np.round(x * 100), -30000, 30000).astype(np.int64 if dt == 'i8' else np.int16)
    if desc.get('layout', 'C') != 'C':
        x = relayout(x, desc['layout'])      # strided view / read-only: callers must not .copy() it away
    return x


DTYPES = ['f8', 'f8', 'f8', 'f8', 'f8', 'f8', 'f4', 'f2', 'i8', 'i2']


def elementwise_signal(min_n=3, max_n=64, levels=False):
    """Element-wise drawn short signal (fully shrinkable)."""
    if levels:
        el = st.integers(-3, 3).map(float)
    else:
        el = st.one_of(st.floats(-4, 4, allow_nan=False, width=32), st.integers(-3, 3).map(float))
    return st.lists(el, min_size=min_n, max_size=max_n).map(lambda v: {'x': np.array(v, dtype=float)})


def any_signal(min_n=3, max_n=400, families=FAMILIES):
    return st.one_of(family_signal(min_n=min_n, max_n=max_n, families=families),
                     elementwise_signal(min_n=min_n, max_n=min(64, max_n)),
                     elementwise_signal(min_n=min_n, max_n=min(40, max_n), levels=True))


# ----------------------------------------------------------------------------
# sift option sets

def imf_opts_strategy(max_iters_fixed=(1, 12), allow_energy=False):
    sd = st.fixed_dictionaries({'stop_method': st.just('sd'),
                                'sd_thresh': st.sampled_from([0.02, 0.05, 0.1, 0.2, 0.5])})
    ril = st.fixed_dictionaries({'stop_method': st.just('rilling'),
                                 'rilling_thresh': st.sampled_from([(0.05, 0.5, 0.05), (0.1, 0.8, 0.1),
                                                                    (0.02, 0.3, 0.05), (0.2, 0.9, 0.2)])})
    fx = st.fixed_dictionaries({'stop_method': st.just('fixed'),
                                'max_iters': st.integers(*max_iters_fixed)})
    step = st.sampled_from([1, 1, 0.5, 1 / 3, 0.75, 0.1])

    @st.composite
    def build(draw):
        d = dict(draw(st.one_of(sd, ril, fx)))
        d['env_step_size'] = draw(step)
        return d
    return build()


def envelope_opts_strategy():
    return st.fixed_dictionaries({'interp_method': st.sampled_from(['splrep', 'pchip', 'mono_pchip'])})


def extrema_opts_strategy(parabolic=(False,), custom_pad=False):
    base = {'pad_width': st.integers(1, 5), 'parabolic_extrema': st.sampled_from(list(parabolic))}
    if custom_pad:
        base['loc_pad_opts'] = st.sampled_from([None, {'mode': 'reflect', 'reflect_type': 'odd'}])
        base['mag_pad_opts'] = st.sampled_from([None, {'mode': 'median', 'stat_length': 1},
                                                {'mode': 'median', 'stat_length': 2},
                                                {'mode': 'edge'}, {'mode': 'mean', 'stat_length': 3}])
    return st.fixed_dictionaries(base)


def sift_signal(max_n=400):
    """Signal mix for the sift properties: parametric families at spread-out lengths, a large share of
    6..10-sample noisy signals (where extrema vanish in the middle of an extraction), the degenerate
    families (constants, ramps) and element-wise drawn signals (fully shrinkable)."""
    osc = ('noise', 'walk', 'tones', 'amfm', 'levels', 'edgeplateau')
    lens = [n for n in (8, 11, 16, 24, 32, 48, 64, 100, 150, 256, 400, 700, 1000, 2000) if n <= max_n]

    @st.composite
    def fam(draw, families, lengths):
        return {'family': draw(st.sampled_from(list(families))), 'n': draw(st.sampled_from(lengths)),
                'k': draw(st.integers(0, 2**32 - 1)), 'p1': draw(st.floats(0, 1)), 'p2': draw(st.floats(0, 1)),
                'dtype': draw(st.sampled_from(DTYPES)), 'layout': draw(st.sampled_from(['C', 'C', 'C', 'strided', 'readonly']))}
    return st.one_of(
        fam(osc, lens), fam(osc, lens), fam(osc, lens),
        fam(('noise', 'noise', 'levels', 'walk'), [6, 7, 8, 9, 10]),
        fam(('noise', 'noise', 'levels', 'walk'), [6, 7, 8, 9, 10]),
        fam(('noise', 'noise', 'levels', 'walk'), [6, 7, 8, 9, 10]),
        family_signal(3, max_n, families=FAMILIES),
        elementwise_signal(min_n=6, max_n=min(64, max_n)),
        elementwise_signal(min_n=6, max_n=min(40, max_n), levels=True))


# ----------------------------------------------------------------------------
# memory layouts: same values, different strides

LAYOUTS = ['C', 'C', 'F', 'strided', 'readonly']


def relayout(a, mode):
    """An array equal to ``a`` in shape and values but laid out differently in memory: 'C' contiguous, 'F' column-major
    (same as C for 1-D), 'strided' (every second element of a larger buffer along axis 0), 'readonly'."""
    a = np.asarray(a)
    if mode == 'F':
        return np.asfortranarray(a)
    if mode == 'strided':
        big = np.zeros((2 * a.shape[0],) + a.shape[1:], dtype=a.dtype)
        big[::2] = a
        out = big[::2]
        assert not out.flags['C_CONTIGUOUS'] or a.shape[0] <= 1
        return out
    if mode == 'readonly':
        out = np.array(a, copy=True)
        out.setflags(write=False)
        return out
    return np.ascontiguousarray(a)


def arg(x):
    """What an oracle hands to the code under test: the array itself when its memory layout (strided view, read-only) is
    the point of the case, a fresh contiguous copy otherwise."""
    x = np.asarray(x)
    if (x.ndim >= 1 and x.shape[0] > 1 and not x.flags['C_CONTIGUOUS']) or not x.flags.writeable:
        return x
    return x.copy()
