"""Orchestrator:  ./check <ID> [--tier quick|thorough] [--replay FILE] [--clause NAME]

exit 0  property held on everything explored (KNOWN-FINDING lines may be printed)
exit 1  ``VIOLATION property=<id> replay=<path>`` printed for an unlisted violation
exit 2  harness error / inconclusive (never reported as a violation)
"""
import os
import sys
import json
import time
import glob
import shutil
import hashlib
import argparse
import tempfile
import subprocess
import importlib
import collections

import numpy as np

from . import core

PY = sys.executable


def log(*a):
    print(*a, flush=True)


def main():
    ap = argparse.ArgumentParser()
    ap.add_argument('pid')
    ap.add_argument('--tier', default=os.environ.get('VERIF_TIER', 'quick'))
    ap.add_argument('--replay', default=None)
    ap.add_argument('--clause', action='append', default=None)
    ap.add_argument('--jobs', type=int, default=int(os.environ.get('VERIF_JOBS', '16')))
    ap.add_argument('--no-evidence', action='store_true')
    args = ap.parse_args()
    pid = args.pid.upper()
    tier = args.tier if args.tier in ('quick', 'thorough') else 'quick'
    try:
        seed = int(os.environ.get('VERIF_SEED', '1'))
    except ValueError:
        seed = 1
    os.environ.setdefault('PYTHONHASHSEED', '0')
    env = dict(os.environ)
    env['PYTHONPATH'] = core.VERIF + os.pathsep + env.get('PYTHONPATH', '')
    env['OMP_NUM_THREADS'] = '1'
    env['OPENBLAS_NUM_THREADS'] = '1'
    env['MKL_NUM_THREADS'] = '1'

    t0 = time.time()
    mod = importlib.import_module('vp.props.%s' % pid.lower())
    clauses = [c for c in mod.CLAUSES if not args.clause or c.name in args.clause]
    work = tempfile.mkdtemp(prefix='vp-%s-' % pid, dir='/dev/shm' if os.path.isdir('/dev/shm') else None)
    timeout = float(os.environ.get('VERIF_TIMEOUT', 1500 if tier == 'quick' else 6 * 3600))

    try:
        if args.replay:
            jobs = [('replay', os.path.abspath(args.replay))]
        else:
            jobs = [('replay', p) for p in sorted(glob.glob(os.path.join(core.VERIF, 'replays', pid + '-*.json')))]
            for c in clauses:
                n = c.nshards(tier)
                for i in range(n):
                    jobs.append(('run', c.name, i, n))
                if c.fuzz is not None and not os.environ.get('VERIF_NO_FUZZ'):
                    nf = c.fuzz[2] if tier == 'quick' else c.fuzz[3]
                    for i in range(nf):
                        jobs.append(('fuzz', c.name, i, nf))
        results, herr = run_jobs(jobs, pid, tier, seed, work, env, args.jobs, t0 + timeout)
        rc = report(pid, tier, seed, mod, clauses, jobs, results, herr, t0,
                    write_evidence=not (args.no_evidence or args.replay or args.clause))
    finally:
        shutil.rmtree(work, ignore_errors=True)
    sys.exit(rc)


def run_jobs(jobs, pid, tier, seed, work, env, maxjobs, deadline):
    pending = list(enumerate(jobs))
    running = {}
    results = {}
    herr = []
    while pending or running:
        while pending and len(running) < maxjobs:
            idx, job = pending.pop(0)
            out = os.path.join(work, 'r%d.json' % idx)
            if job[0] in ('run', 'fuzz'):
                cmd = [PY, '-W', 'ignore', '-m', 'vp.shard', job[0], pid, job[1], str(job[2]), str(job[3]),
                       tier, str(seed), out]
            else:
                cmd = [PY, '-W', 'ignore', '-m', 'vp.shard', 'replay', pid, job[1], out]
            lf = open(os.path.join(work, 'r%d.log' % idx), 'wb')
            p = subprocess.Popen(cmd, stdout=lf, stderr=subprocess.STDOUT, cwd=core.VERIF, env=env)
            running[idx] = (p, out, lf, job)
        time.sleep(0.05)
        for idx in list(running):
            p, out, lf, job = running[idx]
            if p.poll() is None:
                if time.time() > deadline:
                    p.kill()
                    herr.append('timeout: job %r killed at the tier time limit (inconclusive)' % (job,))
                    running.pop(idx)
                    lf.close()
                    pending = []
                continue
            lf.close()
            running.pop(idx)
            if os.path.exists(out):
                r = json.load(open(out))
                if r.get('error'):
                    herr.append('job %r: %s' % (job, r['error']))
                else:
                    results[idx] = r
            else:
                tail = open(os.path.join(work, 'r%d.log' % idx), 'rb').read()[-3000:].decode('utf8', 'replace')
                herr.append('job %r produced no result (exit %s): %s' % (job, p.returncode, tail))
    return results, herr


def report(pid, tier, seed, mod, clauses, jobs, results, herr, t0, write_evidence=True):
    known_seen = {}
    violations = []
    per_clause = collections.OrderedDict()
    allhash = []
    total_eval = 0
    samples = []
    replayed = 0
    for idx, job in enumerate(jobs):
        r = results.get(idx)
        if r is None:
            continue
        name = r['clause']
        if job[0] == 'replay':
            replayed += 1
        d = per_clause.setdefault(name, {'evaluations': 0, 'hashes': [], 'classes': collections.Counter(),
                                         'excluded': collections.Counter(), 'known_findings_hit': collections.Counter(),
                                         'samples': [], 'shards': 0})
        d['evaluations'] += r['evaluations']
        d['shards'] += 1 if job[0] in ('run', 'fuzz') else 0
        d['shard_wall_max'] = max(d.get('shard_wall_max', 0.0), r.get('wall_s', 0.0))
        if r.get('slowest', [0])[0] > d.get('slowest', [0])[0]:
            d['slowest'] = r['slowest']
        try:
            d['hashes'].append(np.load(r['hashes']))
        except Exception:
            pass
        d['classes'].update(r['classes'])
        d['excluded'].update(r['excluded'])
        for sig, ent in r['known'].items():
            d['known_findings_hit'][sig] += ent[0]
            known_seen.setdefault(sig, ent)
        if len(d['samples']) < 2:
            d['samples'].extend(r['samples'][:1])
        for v in r['violations']:
            v = dict(v)
            v['clause'] = name
            v['from_replay'] = job[1] if job[0] == 'replay' else None
            violations.append(v)

    cov_clauses = {}
    for name, d in per_clause.items():
        h = np.unique(np.concatenate(d['hashes'])) if d['hashes'] else np.array([], dtype=np.uint64)
        allhash.append(h)
        total_eval += d['evaluations']
        c = next((c for c in mod.CLAUSES if c.name == name.split('~')[0]), None)
        cov_clauses[name] = {
            'evaluations': d['evaluations'],
            'distinct_nontrivial': int(h.size),
            'nontrivial_rule': c.nt_rule if c else '',
            'exhaustive': bool(c.exhaustive and '_budget_exhausted' not in d['classes'] and '~' not in name) if c else False,
            'classes': dict(sorted(d['classes'].items())),
            'excluded': dict(d['excluded']),
            'known_findings_hit': dict(d['known_findings_hit']),
            'shards': d['shards'],
            'max_shard_wall_s': round(d.get('shard_wall_max', 0.0), 1),
            'slowest_case_s': round(d.get('slowest', [0.0])[0], 2),
            'slowest_case': d.get('slowest', [0.0, None])[1],
        }
        for s in d['samples']:
            if len(samples) < 8:
                samples.append({'clause': name, 'case': s})
    distinct = int(np.unique(np.concatenate(allhash)).size) if allhash else 0

    # ---- violations -> replay files
    out_lines = []
    seen_sig = set()
    violations.sort(key=lambda v: (v['from_replay'] is None, len(json.dumps(v['case']))))
    os.makedirs(os.path.join(core.VERIF, 'replays'), exist_ok=True)
    for v in violations:
        if v['sig'] in seen_sig:
            continue
        seen_sig.add(v['sig'])
        if v['from_replay']:
            path = v['from_replay']
        else:
            body = {'property': pid, 'clause': v['clause'], 'sig': v['sig'], 'msg': v['msg'],
                    'case': v['case'], 'readable': v['readable']}
            h = hashlib.sha1((v['sig'] + json.dumps(body['case'], sort_keys=True)).encode()).hexdigest()[:10]
            path = os.path.join(core.VERIF, 'replays', 'found', '%s-%s.json' % (pid, h))
            os.makedirs(os.path.dirname(path), exist_ok=True)
            with open(path, 'w') as f:
                json.dump(body, f, indent=1)
        log('  violation %s: %s' % (v['sig'], v['msg'][:400]))
        out_lines.append('VIOLATION property=%s replay=%s' % (pid, path))

    for sig, ent in sorted(known_seen.items()):
        log('KNOWN-FINDING: property=%s %s [signature=%s, %d cases this run]' % (pid, ent[3], sig, ent[0]))

    wall = time.time() - t0
    if write_evidence:
        ev = {
            'property_id': pid, 'tier': tier, 'seed': seed, 'level': 'exploration',
            'coverage': {
                'evaluations': int(total_eval),
                'distinct_nontrivial': distinct,
                'rule': getattr(mod, 'RULE', ''),
                'samples': samples,
                'exhaustive': bool(cov_clauses) and all(c['exhaustive'] for n_, c in cov_clauses.items() if '~' not in n_),
                'clauses': cov_clauses,
                'replay_files_rerun': replayed,
                'harness_errors': len(herr),
            },
            'assumptions': list(getattr(mod, 'ASSUMPTIONS', [])),
            'wall_s': round(wall, 2),
            'violations': len(out_lines),
        }
        os.makedirs(os.path.join(core.VERIF, 'evidence'), exist_ok=True)
        with open(os.path.join(core.VERIF, 'evidence', pid + '.json'), 'w') as f:
            json.dump(ev, f, indent=1, sort_keys=False)

    for name, c in cov_clauses.items():
        log('  %-28s eval=%-8d nontrivial=%-8d excluded=%d known=%d shardwall=%.0fs slowest=%.1fs' % (
            name, c['evaluations'], c['distinct_nontrivial'], sum(c['excluded'].values()),
            sum(c['known_findings_hit'].values()), c['max_shard_wall_s'], c['slowest_case_s']))
        if os.environ.get('VERIF_VERBOSE') and c['slowest_case'] is not None:
            log('      slowest: %s' % json.dumps(c['slowest_case'])[:400])
    log('%s tier=%s seed=%d evaluations=%d distinct_nontrivial=%d wall=%.1fs' % (
        pid, tier, seed, total_eval, distinct, wall))
    for line in out_lines:
        log(line)
    if out_lines:
        return 1
    if herr:
        for h in herr[:2]:
            sys.stderr.write('HARNESS-ERROR %s\n' % h[-1500:])
        return 2
    return 0


if __name__ == '__main__':
    main()
