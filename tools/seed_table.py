#!/venv/bin/python
"""Regenerate the seeded-changes table in DESIGN.md (between the SEEDED-TABLE markers) from seeded/*/meta.json."""
import json, os, re
HERE = os.path.dirname(os.path.dirname(os.path.abspath(__file__)))
rows = []
nb = na = no = 0
for d in sorted(os.listdir(os.path.join(HERE, 'seeded'))):
    m = json.load(open(os.path.join(HERE, 'seeded', d, 'meta.json')))
    sigs = m.get('violation_signatures', [])
    first = m['first_evaluation']
    if not m['status'].startswith('caught'):
        tag = m['status'].split(' ')[0]; no += 1
    elif first.startswith('caught by the check as'):
        tag = 'as built'; nb += 1
    else:
        tag = 'after strengthening'; na += 1
    rows.append('| %s | %s | %s | %s | %s |' % (d, m['property'], m['needs_to_manifest'][:200].replace('|', '/'), tag,
                                                ('`%s`' % sigs[0]) if sigs else '-'))
head = ('%d seeded changes on file: %d caught by the check as it stood when the change arrived, %d caught after the check was '
        'strengthened, %d obsolete.\n\n| name | property | needs, in order to manifest | caught | first violation signature |\n|---|---|---|---|---|\n'
        % (len(rows), nb, na, no))
p = os.path.join(HERE, 'DESIGN.md')
s = open(p).read()
new = '<!-- SEEDED-TABLE-BEGIN -->\n' + head + '\n'.join(rows) + '\n<!-- SEEDED-TABLE-END -->'
if '<!-- SEEDED-TABLE-BEGIN -->' in s:
    s = re.sub(r'<!-- SEEDED-TABLE-BEGIN -->.*?<!-- SEEDED-TABLE-END -->', lambda _: new, s, flags=re.S)
else:
    raise SystemExit('markers missing')
open(p, 'w').write(s)
print(len(rows), nb, na, no)
