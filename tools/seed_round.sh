#!/bin/bash
# tools/seed_round.sh <worktree-prefix e.g. /tmp/w5-> <suffix e.g. r5> <ID>...  - import + evaluate the changes of a round
PRE=$1; SUF=$2; shift 2
for ID in "$@"; do
  if [ -f $PRE$ID/out/patch.diff ] && [ -f $PRE$ID/out/demo.py ]; then tools/seed_import.sh $ID-$SUF $PRE$ID/out "" | cut -c1-170; else echo "$ID-$SUF not delivered yet"; fi
done
