#!/bin/bash
# tools/seed_eval.sh <ID> [dir with patch.diff + demo.py, default /verif/seeded/<ID>]   - confirm a seeded change delivered by a sub-agent and run the check against it.
#  1. patch applies to a clean copy of /repo/emd         2. demo.py: exit 0 on /repo, non-zero on the changed copy
#  3. pinned suite still passes on the changed copy       4. ./check <ID> against the changed copy (VERIF_REPO)
NAME=$1; ID=${NAME:0:3}; OUT=${2:-/verif/seeded/$NAME}
D=$(mktemp -d /dev/shm/emd-seed-XXXXXX)
cp -r /repo/emd "$D/emd"; cp /repo/setup.py /repo/setup.cfg "$D/" 2>/dev/null; rm -rf "$D/emd/__pycache__" "$D/emd/tests/__pycache__"
(cd "$D" && patch -p1 -s < "$OUT/patch.diff") || { echo "RESULT $ID patch-failed"; rm -rf "$D"; exit 3; }
echo "--- files changed:"; (cd "$D" && diff -rq /repo/emd emd | grep -v pycache)
EMD_REPO=/repo timeout 600 /venv/bin/python -W ignore "$OUT/demo.py" >/dev/shm/seed-$NAME-orig.log 2>&1; r0=$?
EMD_REPO="$D" timeout 600 /venv/bin/python -W ignore "$OUT/demo.py" >/dev/shm/seed-$NAME-mut.log 2>&1; r1=$?
echo "--- demo: original exit $r0, changed exit $r1"; tail -3 /dev/shm/seed-$NAME-mut.log
XML=$(mktemp /dev/shm/seed-XXXXXX.xml)
(cd "$D" && PYTHONPATH="$D" /venv/bin/python -m pytest -q -p no:cacheprovider --timeout=900 --junitxml="$XML" emd/tests >/dev/null 2>&1)
/venv/bin/python - "$XML" <<'PY'
import sys, json, xml.etree.ElementTree as ET
base = json.load(open('/root/.vp/BASELINE.json'))['stable_pass']
ok=set()
for tc in ET.parse(sys.argv[1]).getroot().iter('testcase'):
    if not any(c.tag in ('failure','error','skipped') for c in tc): ok.add(tc.get('classname')+'::'+tc.get('name'))
missing=[b for b in base if b not in ok]
print('--- pinned suite on changed copy: %d passed, stable tests missing: %r' % (len(ok), missing))
PY
rm -f "$XML"
cd /verif && VERIF_REPO="$D" ./check "$ID" --no-evidence > /dev/shm/seed-$NAME-check.log 2>&1; rc=$?
grep -E "violation|VIOLATION|HARNESS" /dev/shm/seed-$NAME-check.log | cut -c1-300 | head -8
tail -1 /dev/shm/seed-$NAME-check.log
echo "RESULT $NAME demo_orig=$r0 demo_changed=$r1 check_rc=$rc"
rm -rf "$D"
