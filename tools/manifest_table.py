"""Source of truth for MANIFEST.json (run tools/gen_manifest.py after editing)."""
import json, os
HERE = os.path.dirname(os.path.dirname(os.path.abspath(__file__)))
ALL = [json.loads(l)['id'] for l in open(os.path.join(HERE, 'properties.jsonl'))]

HOOK_COMMITS = ['8c8459b']

CHECKS = {
 'C12': dict(
  text='Exhaustive enumeration of every phase sequence of length <= 6 (quick) / <= 8 (thorough) over a 5-value alphabet (every placement of wraps, first and last sample included) plus Hypothesis-generated long and short phases, compared against wrap positions recomputed independently. Exploration: a pass is exhaustive on the enumerated sub-domain and sampled elsewhere.',
  note='Trusts numpy; wrap definition taken from the docstring (|diff| > phase_step).',
  technique='exhaustive enumeration + property-based testing against a reference partition model; coverage-guided fuzzing (atheris) of the same strategies and oracles for the cheap clauses'),
 'C13': dict(
  text='Exhaustive enumeration of all phase sequences of length <= 6/8 over the 5-value alphabet x four phase_edge values, plus Hypothesis-generated phases with random and block boolean masks, single segments fed to is_good, and cycle containers (cache on and off); each wrap-delimited segment must be labelled iff it meets the documented criteria (three-valued oracle: exact boundary values are do-not-care).',
  note='Boundary equalities (p[0] in {0, edge}, p[-1] in {2pi-edge, 2pi}) are not decided because docstring (strict) and code (inclusive) differ; boolean vector masks only.',
  technique='exhaustive enumeration + property-based testing against a three-valued reference predicate; coverage-guided fuzzing (atheris) of the same strategies and oracles for the cheap clauses'),
 'C10': dict(
  text='Exhaustive small grid of edge-hitting / out-of-range frequency arrays plus Hypothesis-generated arrays with linear and log bin sets, compared with a per-sample brute-force histogram for the dense, sparse and 1-D spectra, their marginals and the in-range total.',
  note='Half-open bins [e_b, e_b+1) as stated by the property; finite inputs, strictly increasing edges.',
  technique='exhaustive enumeration + property-based differential testing against a brute-force histogram; coverage-guided fuzzing (atheris) of the same strategies and oracles for the cheap clauses'),
 'C11': dict(
  text='Exhaustive small grid over carrier x AM frequency classes (below / on edge / mid-bin / last edge / above) plus Hypothesis-generated [T x M] / [T x M x K] arrays with independent bin sets, compared with a triple-loop brute-force histogram for all three squash_time settings.',
  note='Half-open bins on both axes; finite inputs.',
  technique='exhaustive enumeration + property-based differential testing against a triple-loop histogram; coverage-guided fuzzing (atheris) of the same strategies and oracles for the cheap clauses'),
 'C14': dict(
  text='Hypothesis-generated gapped label vectors (time-ordered, permuted and re-appearing labels; float/int/bool observations) x reducing functions (exact comparison with per-label computation), monotone multi-cycle phases x functions of phase (exact for linear quantities, bounded interpolation error otherwise, per-cycle affine variants so that mixing cycles is visible) and phase binning against a brute-force per-bin mean for every bin.',
  note='Interpolation tolerances are 4x classical bounds calibrated with >=3x head-room; mode=cycle only.',
  technique='property-based testing against direct per-label recomputation and closed-form expectations; coverage-guided fuzzing (atheris) of the same strategies and oracles for the cheap clauses'),
 'C16': dict(
  text='Exhaustive enumeration of recording layouts (cycle lengths 1-3, optional gaps) x every selection vector, up to 4/5 cycles fully and every selection vector up to length 9/12 on fixed layouts, plus random instances up to 200 cycles; all 12 map_* and 6 project_* functions compared with set-theoretic definitions, and the library-built subset / chain vectors compared with the model for every selection.',
  note='Label vectors are built by the reference model as 1-D integer arrays.',
  technique='exhaustive enumeration + property-based testing against set-theoretic reference definitions; coverage-guided fuzzing (atheris) of the same strategies and oracles for the cheap clauses'),
 'C01': dict(
  text='Hypothesis-generated signals of every listed family (short noisy signals over-weighted so that the extrema-vanished exit path is reached) x stop rule x step x interpolator x pad width; checks additive completeness (1e-9 relative) and that a self-terminated sift ends in a non-oscillatory residual, with the exit path of every extraction measured by an independent reference extraction.',
  note='Convergence errors are an accepted outcome; results cut by sift_thresh are exempt as the property states.',
  technique='property-based testing with an invariant oracle (sum and residual-extrema predicates); coverage-guided fuzzing (atheris) of the same strategies and oracles for the cheap clauses'),
 'C04': dict(
  text='Differential testing of get_next_imf against an independent re-implementation of the stated iteration (bit-exact on the current tree) over stop rules, thresholds, step sizes, iteration limits 1..1000, interpolators and pad widths, with a dedicated generator for the extrema-vanished path and the iteration-limit boundary; signals stored as float64/float32/int64/int16; every extraction is repeated through the same caller-owned option objects (unchanged options, identical result).',
  note='scipy interpolators are shared trusted base; mismatches on ill-conditioned stop decisions (within 1e-9 of threshold) are counted as excluded, not reported.',
  technique='property-based differential testing against a reference model; coverage-guided fuzzing (atheris) of the same strategies and oracles for the cheap clauses'),
 'C05': dict(
  text='Exhaustive enumeration of every sequence of length 3..7 (quick) / 3..9 (thorough) over a 3-level alphabet through 36 extrema calls and 90 envelope calls each, plus Hypothesis-generated signals with custom np.pad options; extrema compared with strict local maxima/minima and np.pad, envelopes with interpolants rebuilt at the integer sample times.',
  note='scipy splrep/splev/PchipInterpolator trusted; pad_width=0 envelopes may raise cleanly.',
  technique='exhaustive enumeration + property-based testing against reference extrema/envelope models; coverage-guided fuzzing (atheris) of the same strategies and oracles for the cheap clauses'),
 'C09': dict(
  text='Hypothesis-generated AM-FM inputs and pure sinusoids over methods x sample rates x amplitudes x phases: shape/range/derivative consistency, accuracy within calibrated tolerances, closed-form phase<->frequency round trip, scale invariance (dyadic and real factors) and independence of every IMF of a 3-D second-level stack from its neighbours.',
  note='Accuracy tolerances are empirical calibrations (>=3x head-room), not derived bounds.',
  technique='property-based testing with metamorphic relations, closed forms and calibrated accuracy bounds; coverage-guided fuzzing (atheris) of the same strategies and oracles for the cheap clauses'),
 'C17': dict(
  text='Hypothesis-generated feature arrays (continuous, tie-rich integer, clustered) x K x distance bounds checked against a validity predicate: equal lengths, in-range, injective on both sides, within bound and within the K-th nearest-neighbour distance; a second clause matches twice through the same array objects with the contents replaced in place (no state may survive a call).',
  note='Validity predicate only - which of several admissible pairings is returned is not constrained.',
  technique='property-based testing with a validity-predicate oracle; coverage-guided fuzzing (atheris) of the same strategies and oracles for the cheap clauses'),
 'C02': dict(
  text='Metamorphic testing over generated signals and option sets: dyadic factors +-2^k asserted bit for bit for get_next_imf, sift and (2^k>0) mask_sift on every case; real factors and time reversal asserted to 1e-6 on the prefix of IMFs whose extraction the reference model shows well conditioned (measured guard band); ratio-mode masked sifts with explicit and zero-crossing mask frequencies.',
  note='sift_thresh (an absolute threshold) is scaled with |c|; ill-conditioned extractions are excluded from the rounding-tolerance relations and counted.',
  technique='property-based metamorphic testing (scaling, negation, time reversal) with a measured guard band'),
 'C03': dict(
  text='For generated signals and options: every cap k=1..K+2 of the classic and masked sift must be the bit-identical prefix of the uncapped run; every column must equal single (masked) IMF extraction of the externally computed residual; all five variants are run with caps below / at / above the attainable IMF count and must return finite [samples x <=cap] arrays with their documented extras.',
  note='Peel mismatches above 1e-8 are only reported when the reference model shows the extraction well conditioned; ensembles use nprocesses=1 with a seeded RNG.',
  technique='property-based testing with differential (peel) and metamorphic (cap-prefix) oracles'),
 'C06': dict(
  text='Complete enumeration of the finite grid variant x IMF options x interpolation method x extrema options x delivery route (keyword dicts, SiftConfig unpacking, get_func, functools.partial) x nprocesses; the guarded in-tree trace shows what get_next_imf / interp_envelope / get_padded_extrema actually received in every process (workers included) and must equal what was supplied; the four routes must give identical outputs; a second clause compares the classic / second-layer sift under custom np.pad options with the pipeline assembled from independent reference stages.',
  note='Observes what each stage receives (EMD_VERIF_TRACE hook); that a stage uses what it receives is C04/C05. The grid is finite and enumerated completely (720 quick / 1440 thorough points x 4 routes).',
  technique='exhaustive configuration enumeration with a trace-based oracle and route-differential comparison'),
 'C07': dict(
  text='Hypothesis-generated signals x mask frequency sources x amplitude modes x step factors x nphases 1..8 x nprocesses 1..8 compared with an executable specification of the masking rule assembled from single-IMF extractions (mean over phases of extraction of signal+mask minus mask; frequency ladder; amplitude rule; stop rules), feedback of returned mask frequencies, zero-amplitude reduction and bit-identity across worker counts (worker pids read from the trace).',
  note='get_next_imf is the trusted building block (C04). OS scheduling is sampled by repetition, not controlled.',
  technique='property-based differential testing against an executable specification; schedule sampling over worker counts'),
 'C08': dict(
  text='Hypothesis-generated grid nensembles 1..8 x nprocesses 1..8 x noise mode x noise level x cap for ensemble_sift and complete_ensemble_sift with a seeded RNG; from the guarded trace of every member (index, pid, the noise actually added): members pairwise distinct and uncorrelated, output equal to the member mean recomputed in the harness from the traced noise, zero noise equal to the classic sift, every complete-ensemble stage checked the same way.',
  note='Job-to-worker assignments are those the pool produces (sampled, reported in the evidence); classic sift is the trusted building block.',
  technique='property-based testing with a trace-based oracle (noise digests, recomputed member means); schedule sampling'),
 'C19': dict(
  text='A catalogue of the public numeric entry points driven with generated signals under four option sets (step sizes != 1, all stop rules, data-driven mask frequencies): equivalent layouts must give identical results, multi-column / row-vector / 3-D input to the single-signal sift routines and mismatched lengths to multi-array routines must raise, inputs (also read-only ones) must be byte-identical afterwards, caller-owned option dictionaries deepcopy-equal, and a repeated call identical.',
  note='amplitude_normalise and hilberthuang_1d document 2-D input only; any exception type counts as rejection.',
  technique='property-based testing with metamorphic (layout) relations and before/after state comparison; coverage-guided fuzzing (atheris) of the same strategies and oracles for the cheap clauses'),
 'C20': dict(
  text='Exhaustive enumeration of every call history of length <= 3 (quick) / <= 4 (thorough) over a 19-action alphabet from both the never-set-up and the set-up state, random histories to length 12 with log files and the other sift variants, and random histories replayed in fresh interpreters; a model of the console level is compared with get_level() after every step, outputs with a logging-free baseline, and console traffic during each call with the effective level.',
  note='The never-set-up state is re-created in-process (validated by the fresh-interpreter clause); console output goes to a counting stream.',
  technique='model-based testing of call histories: exhaustive to depth 3/4, random beyond'),
 'C15': dict(
  text='Model-based testing of container call histories: Hypothesis draws a phase series and up to 12 operations (metric computation in cycle / augmented mode, metric addition, timings, subset selection with 1-3 condition strings over all six comparators and integer / negative / decimal / exponent literals, re-picking the same conditions, chain timings and chain metrics, table export) applied in lock-step to a cache-on and a cache-off container; a reference model on the independently recomputed cycle partition is compared after every step.',
  note='Documented rejections (chain metrics before a subset, empty selections, wrong-length metrics) are accepted. One open known finding (two definitions of the augmented segment on non-monotone cycles) is excluded by construction and counted; the search continues behind it.',
  technique='model-based (stateful) property testing of operation histories with a lock-step twin and a reference model; coverage-guided fuzzing (atheris) of the same strategies and oracles for the cheap clauses'),
 'C18': dict(
  text='Hypothesis-generated edit histories on twin configurations (slash paths vs nested indexing) with values of every supported kind at depth 1-3, default-config faithfulness for all four variants, and behavioural YAML round trips through both the file and the text/stream route (same sift_type, same options modulo tuple/array->list, identical sift output, saved object untouched).',
  note='PyYAML trusted; ensemble variants compared with a re-seeded RNG.',
  technique='model-based testing of edit histories (twin comparison) + round-trip property testing; coverage-guided fuzzing (atheris) of the same strategies and oracles for the cheap clauses'),
}

NOT_APPLICABLE = [{'property_id': p, 'reason': 'check not built yet in this round (planned with the same technique, see DESIGN.md section 2)'}
                  for p in ALL if p not in CHECKS]
