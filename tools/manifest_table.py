"""Source of truth for MANIFEST.json (run tools/gen_manifest.py after editing)."""
import json, os
HERE = os.path.dirname(os.path.dirname(os.path.abspath(__file__)))
ALL = [json.loads(l)['id'] for l in open(os.path.join(HERE, 'properties.jsonl'))]

HOOK_COMMITS = []

CHECKS = {
 'C12': dict(
  text='Exhaustive enumeration of every phase sequence of length <= 6 (quick) / <= 8 (thorough) over a 5-value alphabet (every placement of wraps, first and last sample included) plus Hypothesis-generated long and short phases, compared against wrap positions recomputed independently. Exploration: a pass is exhaustive on the enumerated sub-domain and sampled elsewhere.',
  note='Trusts numpy; wrap definition taken from the docstring (|diff| > phase_step).',
  technique='exhaustive enumeration + property-based testing against a reference partition model'),
 'C13': dict(
  text='Exhaustive enumeration of all phase sequences of length <= 6/8 over the 5-value alphabet x four phase_edge values, plus Hypothesis-generated phases with random and block boolean masks, single segments fed to is_good, and cycle containers (cache on and off); each wrap-delimited segment must be labelled iff it meets the documented criteria (three-valued oracle: exact boundary values are do-not-care).',
  note='Boundary equalities (p[0] in {0, edge}, p[-1] in {2pi-edge, 2pi}) are not decided because docstring (strict) and code (inclusive) differ; boolean vector masks only.',
  technique='exhaustive enumeration + property-based testing against a three-valued reference predicate'),
}

NOT_APPLICABLE = [{'property_id': p, 'reason': 'check not built yet in this round (planned with the same technique, see DESIGN.md section 2)'}
                  for p in ALL if p not in CHECKS]
