"""Source of truth for MANIFEST.json (run tools/gen_manifest.py after editing)."""
import json, os
HERE = os.path.dirname(os.path.dirname(os.path.abspath(__file__)))
ALL = [json.loads(l)['id'] for l in open(os.path.join(HERE, 'properties.jsonl'))]

HOOK_COMMITS = []

CHECKS = {
 'C12': dict(
  text='Exhaustive enumeration of every phase sequence of length <= 6 (quick) / <= 8 (thorough) over a 5-value alphabet (every placement of wraps, first and last sample included) plus Hypothesis-generated long and short phases, compared against wrap positions recomputed independently. Exploration: a pass is exhaustive on the enumerated sub-domain and sampled elsewhere.',
  note='Trusts numpy; wrap definition taken from the docstring (|diff| > phase_step).',
  technique='exhaustive enumeration + property-based testing against a reference partition model'),
 'C13': dict(
  text='Exhaustive enumeration of all phase sequences of length <= 6/8 over the 5-value alphabet x four phase_edge values, plus Hypothesis-generated phases with random and block boolean masks, single segments fed to is_good, and cycle containers (cache on and off); each wrap-delimited segment must be labelled iff it meets the documented criteria (three-valued oracle: exact boundary values are do-not-care).',
  note='Boundary equalities (p[0] in {0, edge}, p[-1] in {2pi-edge, 2pi}) are not decided because docstring (strict) and code (inclusive) differ; boolean vector masks only.',
  technique='exhaustive enumeration + property-based testing against a three-valued reference predicate'),
 'C10': dict(
  text='Exhaustive small grid of edge-hitting / out-of-range frequency arrays plus Hypothesis-generated arrays with linear and log bin sets, compared with a per-sample brute-force histogram for the dense, sparse and 1-D spectra, their marginals and the in-range total.',
  note='Half-open bins [e_b, e_b+1) as stated by the property; finite inputs, strictly increasing edges.',
  technique='exhaustive enumeration + property-based differential testing against a brute-force histogram'),
 'C11': dict(
  text='Exhaustive small grid over carrier x AM frequency classes (below / on edge / mid-bin / last edge / above) plus Hypothesis-generated [T x M] / [T x M x K] arrays with independent bin sets, compared with a triple-loop brute-force histogram for all three squash_time settings.',
  note='Half-open bins on both axes; finite inputs.',
  technique='exhaustive enumeration + property-based differential testing against a triple-loop histogram'),
 'C14': dict(
  text='Hypothesis-generated gapped label vectors x reducing functions (exact comparison with per-label computation), monotone multi-cycle phases x functions of phase (exact for linear quantities, bounded interpolation error otherwise, per-cycle affine variants so that mixing cycles is visible) and phase binning against a brute-force per-bin mean for every bin.',
  note='Interpolation tolerances are 4x classical bounds calibrated with >=3x head-room; mode=cycle only.',
  technique='property-based testing against direct per-label recomputation and closed-form expectations'),
 'C16': dict(
  text='Exhaustive enumeration of recording layouts (cycle lengths 1-3, optional gaps) x every selection vector, up to 4/5 cycles fully and every selection vector up to length 9/12 on fixed layouts, plus random instances up to 200 cycles; all 12 map_* and 6 project_* functions compared with set-theoretic definitions.',
  note='Label vectors are built by the reference model as 1-D integer arrays.',
  technique='exhaustive enumeration + property-based testing against set-theoretic reference definitions'),
}

NOT_APPLICABLE = [{'property_id': p, 'reason': 'check not built yet in this round (planned with the same technique, see DESIGN.md section 2)'}
                  for p in ALL if p not in CHECKS]
