"""Source of truth for MANIFEST.json (run tools/gen_manifest.py after editing)."""
import json, os
HERE = os.path.dirname(os.path.dirname(os.path.abspath(__file__)))
ALL = [json.loads(l)['id'] for l in open(os.path.join(HERE, 'properties.jsonl'))]

HOOK_COMMITS = []

CHECKS = {
 'C12': dict(
  text='Exhaustive enumeration of every phase sequence of length <= 6 (quick) / <= 8 (thorough) over a 5-value alphabet (every placement of wraps, first and last sample included) plus Hypothesis-generated long and short phases, compared against wrap positions recomputed independently. Exploration: a pass is exhaustive on the enumerated sub-domain and sampled elsewhere.',
  note='Trusts numpy; wrap definition taken from the docstring (|diff| > phase_step).',
  technique='exhaustive enumeration + property-based testing against a reference partition model'),
}

NOT_APPLICABLE = [{'property_id': p, 'reason': 'check not built yet in this round (planned with the same technique, see DESIGN.md section 2)'}
                  for p in ALL if p not in CHECKS]
