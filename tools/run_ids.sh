#!/bin/bash
# tools/run_ids.sh <seed> <tier> <ID>...  - the listed checks once (no evidence written); one line per property
SEED=$1; TIER=$2; shift 2
cd "$(dirname "$0")/.."
for id in "$@"; do
  s=$(date +%s)
  VERIF_SEED=$SEED ./check $id --tier $TIER --no-evidence > /dev/shm/runids-$SEED-$id.log 2>&1; rc=$?
  e=$(( $(date +%s) - s ))
  echo "$id seed=$SEED rc=$rc ${e}s | $(tail -1 /dev/shm/runids-$SEED-$id.log | cut -c1-110)"
done
