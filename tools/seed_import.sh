#!/bin/bash
# tools/seed_import.sh <name e.g. C07-r2> <src dir with patch.diff demo.py notes.md> "<needs to manifest>"
NAME=$1; SRC=$2; NEEDS=$3
[ -z "$NEEDS" ] && NEEDS=$(grep -m1 "^NEEDS:" $SRC/notes.md | sed "s/^NEEDS: *//")
D=/verif/seeded/$NAME; mkdir -p $D
cp $SRC/patch.diff $SRC/demo.py $D/; [ -f $SRC/notes.md ] && cp $SRC/notes.md $D/
/venv/bin/python - "$NAME" "$NEEDS" <<'PY'
import sys, json
name, needs = sys.argv[1], sys.argv[2]
json.dump({'property': name[:3], 'origin': 'independent sub-agent (later round: told only the property text and the one-line ideas of the earlier changes to avoid) working in a scratch worktree of /repo at HEAD',
           'needs_to_manifest': needs, 'first_evaluation': 'pending', 'status': 'pending re-evaluation'},
          open('/verif/seeded/%s/meta.json' % name, 'w'), indent=1)
PY
cd /verif && tools/seed_all.sh $NAME
