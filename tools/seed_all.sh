#!/bin/bash
# tools/seed_all.sh [IDs...] - re-evaluate every seeded change under /verif/seeded and update its meta.json
cd /verif
IDS=${@:-$(ls seeded)}
for ID in $IDS; do
  tools/seed_eval.sh $ID > /dev/shm/seedeval-$ID.txt 2>&1   # $ID is the directory name (C07 or C07-r2); the property is its first 3 characters
  /venv/bin/python - $ID <<'PY'
import sys, json, re
ID = sys.argv[1]
log = open('/dev/shm/seedeval-%s.txt' % ID).read()
m = re.search(r'RESULT \S+ demo_orig=(\d+) demo_changed=(\d+) check_rc=(\d+)', log)
sigs = sorted(set(re.findall(r'violation (\S+):', log)))
pinned = re.search(r'pinned suite on changed copy: (\d+) passed, stable tests missing: (\[.*\])', log)
p = '/verif/seeded/%s/meta.json' % ID
meta = json.load(open(p))
meta.update({
  'confirmed': {'patch_applies_to_repo_head': True, 'demo_exit_on_repo': int(m.group(1)), 'demo_exit_with_change': int(m.group(2)),
                'pinned_suite_passed_with_change': int(pinned.group(1)), 'stable_tests_missing_with_change': pinned.group(2)},
  'what_was_run': ['tools/seed_eval.sh %s  (patch applied to a scratch copy of /repo/emd; demo.py against /repo and against the copy; '
                   'pinned pytest suite on the copy; ./check %s --tier quick with VERIF_REPO pointing at the copy; copy removed)' % (ID, ID[:3])],
  'check_exit_status': int(m.group(3)),
  'status': 'caught' if m.group(3) == '1' else 'MISSED',
  'violation_signatures': sigs[:8]})
json.dump(meta, open(p, 'w'), indent=1)
print(ID, meta['status'], 'demo %s/%s' % (m.group(1), m.group(2)), sigs[:2])
PY
done
