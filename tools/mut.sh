#!/bin/bash
# tools/mut.sh <ID> <patch-file | -e 'python-snippet editing files under $D/emd'> [extra check args]
# Runs ./check <ID> (no evidence written) against a scratch copy of /repo with a mutation applied.
ID=$1; shift
D=$(mktemp -d /dev/shm/emd-mut-XXXXXX)
cp -r /repo/emd "$D/emd"; rm -rf "$D/emd/__pycache__"
if [ "$1" == "-s" ]; then   # -s file 'sed expr'
  sed -i "$3" "$D/emd/$2" ; shift 3
  diff -ru -x __pycache__ /repo/emd "$D/emd" | head -40
else
  (cd "$D" && patch -p1 -s < "$1") || { echo PATCH FAILED; rm -rf "$D"; exit 3; }; shift
fi
cd /verif && VERIF_REPO="$D" ./check "$ID" --no-evidence "$@"
rc=$?
rm -rf "$D"
echo "mutant rc=$rc"
exit $rc
