#!/bin/bash
# tools/sweep.sh <seed-from> <seed-to> [tier]  - false-alarm sweep: every check at several seeds, no evidence written
cd "$(dirname "$0")/.."
for s in $(seq $1 $2); do tools/run_all.sh $s ${3:-quick} --no-evidence; done
