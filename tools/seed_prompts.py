#!/venv/bin/python
"""tools/seed_prompts.py <prefix e.g. /tmp/w5-> <ID>...  - write PROMPT.txt for a new round of sub-agent seeded changes.
The prompt contains only the property text plus one-line descriptions of the ideas already tried for it."""
import json, os, sys
prefix = sys.argv[1]
props = {json.loads(l)['id']: json.loads(l) for l in open('/verif/properties.jsonl')}
for pid in sys.argv[2:]:
    p = props[pid]
    tried = [json.load(open('/verif/seeded/%s/meta.json' % d))['needs_to_manifest'] for d in sorted(os.listdir('/verif/seeded')) if d[:3] == pid]
    wt = prefix + pid
    avoid = '\n'.join('   (%d) "%s"' % (i + 1, t) for i, t in enumerate(tried))
    txt = f"""You are working in a scratch git worktree of the pure-Python library `emd` (Empirical Mode Decomposition: sift variants, Hilbert-Huang/holo spectra, single-cycle analysis) located at {wt}. Work ONLY inside {wt}. Do not read, list or use anything under /verif, /root/.vp, /root/.claude, /repo or other /tmp directories - your work must be independent of them.

PROPERTY that holds in the current code ({pid}: {p['title']}):
{p['statement']}
Quantified over: {p['quantifier']['text']}

YOUR TASK: make ONE change to the library source under {wt}/emd/ (not the tests, not emd/_verif.py) that BREAKS this property, such that
 (a) the package still imports and every test that passes on the unmodified worktree still passes (two is_imf tests fail already on the unmodified code; ignore those);
 (b) the breakage needs something specific to manifest - think of: two cooperating code sites that each look fine alone; dependence on the number of worker processes or on work done in a worker instead of the parent; a multi-step sequence of calls on the same objects (state surviving between calls, caching, in-place edits, aliasing of returned arrays); an exception or early-return path; a rarely combined pair of options or a rarely used public parameter; an unusual but valid array layout / dtype / shape; a numerical corner (exact ties, values exactly on a threshold, zeros, negative values, very short inputs). Ordinary default use and simple single calls with generic random float64 inputs must stay bit-identical.
 (c) it looks like something a developer could plausibly introduce (a refactoring slip, an 'optimisation', caching, vectorisation, an API clean-up), not sabotage with magic constants.
 (d) it must be a DIFFERENT idea from all of these, which were already tried by others - pick another code site / another mechanism / another clause of the property statement:
{avoid}

Run the tests with:
  cd {wt} && PYTHONPATH={wt} /venv/bin/python -m pytest -q -p no:cacheprovider --timeout=900 emd/tests 2>&1 | tail -5

DELIVER in {wt}/out/ :
 - patch.diff : output of `git -C {wt} diff` for your change (only files under emd/);
 - demo.py    : a small standalone program using only the public emd API that exits 0 (prints OK) on the ORIGINAL code and exits 1 (printing what went wrong) with your change applied. It must start with
        import os, sys; sys.path.insert(0, os.environ.get('EMD_REPO', '{wt}'))
     so that it can be pointed at another checkout. Make it deterministic (seed any RNG) and make it finish within a minute. Verify both directions yourself. Do NOT use `git stash`, pkill or killall. To test the original code, export it once with `mkdir -p {wt}/out/orig && git -C {wt} archive HEAD | tar -x -C {wt}/out/orig` and run `EMD_REPO={wt}/out/orig /venv/bin/python out/demo.py`; delete out/orig afterwards.
 - notes.md   : what you changed, why it passes the existing tests, and exactly what is needed for the violation to manifest; end it with ONE line starting with `NEEDS:` that states in one sentence what is needed for the violation to manifest.
Leave the worktree with your change applied (uncommitted). Use /venv/bin/python (numpy 2.x, scipy, pandas, pyyaml are installed; there is no network). Reply with a 5-line summary."""
    os.makedirs(wt + '/out', exist_ok=True)
    open(wt + '/out/PROMPT.txt', 'w').write(txt)
print('prompts written')
