#!/opt/veriftools/pyvenv/bin/python
"""Generate MANIFEST.json from the table below (keeps the file valid and uniform)."""
import json, os, sys
HERE = os.path.dirname(os.path.dirname(os.path.abspath(__file__)))
sys.path.insert(0, HERE)
from tools.manifest_table import CHECKS, NOT_APPLICABLE, HOOK_COMMITS

checks = []
for pid, d in CHECKS.items():
    checks.append({
        'property_id': pid,
        'quick_cmd': './check %s --tier quick' % pid,
        'thorough_cmd': './check %s --tier thorough' % pid,
        'evidence_file': 'evidence/%s.json' % pid,
        'replay_cmd_template': './check %s --replay {path}' % pid,
        'engine': 'vp',
        'level_claimed': {'category': 'exploration', 'text': d['text'], 'design_ref': 'DESIGN.md section 2 (%s)' % pid},
        'level_note': d['note'],
        'technique': d['technique'],
    })
m = {
    'version': 1,
    'setup_cmd': '/venv/bin/python -c "import hypothesis, atheris" 2>/dev/null || /venv/bin/pip install --no-index --find-links /opt/veriftools/wheels hypothesis atheris',
    'hooks': {
        'guard': 'EMD_VERIF_TRACE',
        'enable': 'emd is an editable install of /repo: checks start fresh interpreters with /repo first on sys.path; trace hooks are switched on per call by setting EMD_VERIF_TRACE=<directory> in the environment of the process that calls emd',
        'baseline_off_cmd': 'tools/baseline.sh',
        'source_commits': HOOK_COMMITS,
        'add_only': True,
    },
    'engines': [{'name': 'vp', 'path': 'vp/', 'serves_properties': sorted(CHECKS),
                 'kind_free_text': 'Hypothesis strategies / exhaustive enumerators + explicit oracles (reference models, metamorphic and differential relations), sharded over subprocesses; for cheap clauses a second, coverage-guided engine (atheris/libFuzzer feeding the same Hypothesis strategies through fuzz_one_input, emd instrumented); see DESIGN.md section 1'}],
    'checks': checks,
    'notes': 'All checks: exit 0 held / exit 1 with VIOLATION line / exit 2 harness error or inconclusive. Known findings: known_findings.txt. VERIF_SEED selects the Hypothesis seed and the libFuzzer seed / starting corpus; VERIF_NO_FUZZ=1 switches the coverage-guided shards off; VERIF_REPO overrides /repo for mutation experiments only.',
    'not_applicable': NOT_APPLICABLE,
}
json.dump(m, open(os.path.join(HERE, 'MANIFEST.json'), 'w'), indent=1)
import jsonschema
jsonschema.validate(m, json.load(open('/root/.vp/MANIFEST.schema.json')))
print('MANIFEST.json written:', len(checks), 'checks,', len(NOT_APPLICABLE), 'not applicable')
