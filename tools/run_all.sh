#!/bin/bash
# tools/run_all.sh <seed> [tier] [--no-evidence]  - every check once; prints one line per property
SEED=${1:-1}; TIER=${2:-quick}; shift 2
cd "$(dirname "$0")/.."
for i in 01 02 03 04 05 06 07 08 09 10 11 12 13 14 15 16 17 18 19 20; do
  s=$(date +%s)
  VERIF_SEED=$SEED ./check C$i --tier $TIER "$@" > /dev/shm/runall-$SEED-C$i.log 2>&1; rc=$?
  e=$(( $(date +%s) - s ))
  echo "C$i seed=$SEED rc=$rc ${e}s $(grep -c '^KNOWN-FINDING' /dev/shm/runall-$SEED-C$i.log) known | $(tail -1 /dev/shm/runall-$SEED-C$i.log | cut -c1-110)"
done
