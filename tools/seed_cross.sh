#!/bin/bash
# tools/seed_cross.sh <patch-owner-ID> <check-ID>...  - run other checks against a seeded patch
OWN=$1; shift
P=/tmp/wt-$OWN/out/patch.diff; [ -f "$P" ] || P=/verif/seeded/$OWN/patch.diff
for ID in "$@"; do
  tools/mut.sh $ID $P > /dev/shm/cross-$OWN-$ID.log 2>&1
  echo "patch $OWN vs check $ID: $(tail -1 /dev/shm/cross-$OWN-$ID.log) | $(grep -m2 violation /dev/shm/cross-$OWN-$ID.log | cut -c1-160 | tr '\n' ' ')"
done
