#!/bin/bash
# Runs the repository's pinned suite with the verification hook guard OFF and
# checks that every test of BASELINE.json's stable_pass list passed.
unset EMD_VERIF_TRACE
OUT=$(mktemp /dev/shm/emd-baseline-XXXXXX.xml)
cd /repo && /venv/bin/python -m pytest -ra -q -p no:cacheprovider --timeout=900 \
   --continue-on-collection-errors --junitxml="$OUT" >/dev/null 2>&1
/venv/bin/python - "$OUT" <<'PY'
import sys, json, xml.etree.ElementTree as ET
base = json.load(open('/root/.vp/BASELINE.json'))['stable_pass'] if __import__('os').path.exists('/root/.vp/BASELINE.json') else None
t = ET.parse(sys.argv[1]).getroot()
ok = set(); bad = set()
for tc in t.iter('testcase'):
    name = tc.get('classname') + '::' + tc.get('name')
    if any(c.tag in ('failure', 'error') for c in tc): bad.add(name)
    elif not any(c.tag == 'skipped' for c in tc): ok.add(name)
print('passed', len(ok), 'failed', len(bad))
if base is not None:
    missing = [b for b in base if b not in ok]
    print('baseline stable_pass missing:', missing)
    sys.exit(1 if missing else 0)
sys.exit(0)
PY
rc=$?
rm -f "$OUT"
exit $rc
